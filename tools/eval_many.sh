#!/bin/sh
# tools/eval_many.sh <parallelism> <seeded ids...> : evaluate seeded changes against their property's quick check
cd "$(dirname "$0")/.." || exit 2
mkdir -p work/seeded_eval
par=$1; shift
printf '%s\n' "$@" | xargs -P "$par" -I{} sh -c 'n={}; p=${n%%_*}; tools/eval_seeded.py seeded/$n $p > work/seeded_eval/$n.json 2> work/seeded_eval/$n.err; echo "$n done"'
