#!/venv/bin/python
"""Evaluate a candidate seeded change (patch.diff + demo.py):
   1. scratch git worktree of /repo HEAD (under /var/tmp, removed afterwards)
   2. demo passes on the unchanged tree; patch applies; repository tests still pass; demo fails with the patch
   3. run the given checks (default: the property's own quick check) with CORANKCO_REPO=<scratch> and report
      which ones print VIOLATION
   usage: tools/eval_seeded.py <dir with patch.diff, demo.py> <property id> [--checks C01,C02] [--tier quick]
   Prints one JSON object."""
import argparse, json, os, shutil, subprocess, sys, tempfile, time

ap = argparse.ArgumentParser()
ap.add_argument("dir"); ap.add_argument("pid"); ap.add_argument("--checks"); ap.add_argument("--tier", default="quick")
a = ap.parse_args()
VERIF = os.path.dirname(os.path.dirname(os.path.abspath(__file__)))
patch = os.path.abspath(os.path.join(a.dir, "patch.diff"))
demo = os.path.abspath(os.path.join(a.dir, "demo.py"))
wt = tempfile.mkdtemp(prefix="evalseed_", dir="/var/tmp")
os.rmdir(wt)
res = {"dir": a.dir, "property": a.pid}


def run(cmd, cwd=None, env=None, timeout=1800):
    e = dict(os.environ)
    e.pop("CORANKCO_REPO", None)
    if env:
        e.update(env)
    p = subprocess.run(cmd, cwd=cwd, env=e, stdout=subprocess.PIPE, stderr=subprocess.STDOUT, text=True, timeout=timeout)
    return p.returncode, p.stdout


try:
    rc, out = run(["git", "-C", "/repo", "worktree", "add", "-q", "--detach", wt, "HEAD"])
    assert rc == 0, out
    env = {"NUMBA_CACHE_DIR": os.path.join(wt, ".numba_cache"), "PYTHONDONTWRITEBYTECODE": "1", "PYTHONPATH": wt}
    rc, out = run(["/venv/bin/python", demo], cwd=wt, env=env, timeout=300)
    res["demo_passes_unchanged"] = rc == 0
    rc, out = run(["git", "-C", wt, "apply", patch])
    res["patch_applies"] = rc == 0
    if rc != 0:
        res["apply_error"] = out[-500:]
    else:
        rc, out = run(["/venv/bin/python", "-m", "pytest", "-q", "-p", "no:cacheprovider", "-x", "tests"], cwd=wt, env=env,
                      timeout=900)
        res["tests_pass_with_patch"] = rc == 0
        res["tests_tail"] = out.strip().splitlines()[-1] if out.strip() else ""
        rc, out = run(["/venv/bin/python", demo], cwd=wt, env=env, timeout=300)
        res["demo_fails_with_patch"] = rc != 0
        res["demo_tail"] = out.strip().splitlines()[-1][:300] if out.strip() else ""
        checks = (a.checks.split(",") if a.checks else [a.pid])
        res["checks"] = {}
        for c in checks:
            t0 = time.time()
            rc, out = run([os.path.join(VERIF, "check"), c, "--tier", a.tier],
                          env={"CORANKCO_REPO": wt, "VERIF_NO_EVIDENCE": "1", "VERIF_REPLAY_SUFFIX": "_eval_" + os.path.basename(wt)}, timeout=3600)
            viol = [l for l in out.splitlines() if l.startswith("VIOLATION-SUMMARY")]
            res["checks"][c] = {"rc": rc, "caught": rc == 1, "wall_s": round(time.time() - t0, 1),
                                "summary": viol[:6], "tail": out.strip().splitlines()[-1][:200] if out.strip() else ""}
finally:
    subprocess.run(["git", "-C", "/repo", "worktree", "remove", "--force", wt], stdout=subprocess.DEVNULL,
                   stderr=subprocess.DEVNULL)
    shutil.rmtree(wt, ignore_errors=True)
print(json.dumps(res, indent=1))
