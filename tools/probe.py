#!/venv/bin/python
"""Developer probe: run the stages of a property restricted to some configuration(s) and print violating records.
   tools/probe.py C04 --cfg BioConsert [--tier quick] [--max 10]"""
import argparse, importlib, json, os, random, sys
sys.path.insert(0, os.path.dirname(os.path.dirname(os.path.abspath(__file__))))
from harness import core

ap = argparse.ArgumentParser()
ap.add_argument("pid"); ap.add_argument("--cfg", action="append"); ap.add_argument("--tier", default="quick")
ap.add_argument("--max", type=int, default=10); ap.add_argument("--stage")
a = ap.parse_args()
core.setup_impl_env()
drv = importlib.import_module(f"harness.props.{a.pid}")
rng = random.Random(core.seed() * 1000003 + sum(map(ord, a.pid)))
nid = 1
shown = 0
for st in drv.stages(a.tier, rng):
    if a.stage and st.name != a.stage:
        continue
    cases = st.cases() if callable(st.cases) else st.cases
    if a.cfg:
        cases = [c for c in cases if c.get("cfg") in a.cfg]
    for c in cases:
        c["id"] = nid; nid += 1
    if not cases:
        continue
    recs = core.pmap(st.run, cases, initfn=st.init, aux=st.aux) if st.run else cases
    if st.post:
        recs = st.post(recs)
    v, _ = core.trace_verdicts(st.module, recs, cfg=st.cfg, env=st.env, tag=f"probe_{a.pid}_{st.name}", chunk=st.chunk, aux=st.aux)
    hist = {}
    for r in recs:
        cls, d = v[r["id"]]
        hist[(cls, d)] = hist.get((cls, d), 0) + 1
        if cls in ("viol", "drift") and shown < a.max:
            shown += 1
            print(cls, d, json.dumps({k: x for k, x in r.items() if k not in ("id",)}, separators=(",", ":")))
    print(st.name, hist)
