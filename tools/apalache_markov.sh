#!/bin/sh
# Extra (not part of any check): Apalache discharges the inductive invariant of the Markov generator symbolically:
#   Init => IndInv                    (length 0)
#   IndInv /\ Next => IndInv'         (length 1, from EVERY vector satisfying IndInv, reachable or not)
# for the N and Complete fixed in spec/MC_MarkovApa.tla (N = 6, incomplete mode: 3 min 10 s on this machine).
cd "$(dirname "$0")/../spec" || exit 2
out=$(mktemp -d /var/tmp/apa.XXXXXX)
timeout 1800 apalache-mc check --inv=IndInv --length=0 --out-dir="$out" MC_MarkovApa.tla | tail -3
timeout 3600 apalache-mc check --init=IndInit --inv=IndInv --length=1 --out-dir="$out" MC_MarkovApa.tla | tail -3
rm -rf "$out"
