#!/bin/sh
# tools/import_round.sh <agent out dir> <offset> : copy X_k directories of a seeding agent into seeded/X_<k+offset>
cd "$(dirname "$0")/.." || exit 2
out=$1; off=$2
for d in "$out"/C*_*; do
  [ -f "$d/patch.diff" ] || continue
  b=$(basename "$d"); p=${b%%_*}; k=${b##*_}; n=$((k + off))
  mkdir -p seeded/${p}_$n
  cp "$d/patch.diff" "$d/demo.py" "$d/notes.txt" seeded/${p}_$n/ 2>/dev/null
  echo ${p}_$n
done
