#!/bin/sh
# evaluate every seeded change against the quick check of the property it breaks; results in work/seeded_eval/
cd "$(dirname "$0")/.." || exit 2
mkdir -p work/seeded_eval
for d in seeded/C*; do
  name=$(basename $d); pid=${name%%_*}
  tools/eval_seeded.py $d $pid > work/seeded_eval/$name.json 2> work/seeded_eval/$name.err
  python3 - "$name" <<'PY'
import json,sys
n=sys.argv[1]; r=json.load(open(f'work/seeded_eval/{n}.json'))
print(n, {k:v['caught'] for k,v in r.get('checks',{}).items()}, flush=True)
PY
done
