#!/usr/bin/env python3
"""Markdown table of the stages each quick check ran, from evidence/*.json (DESIGN.md section 0.6)."""
import glob, json, os
ROOT = os.path.dirname(os.path.dirname(os.path.abspath(__file__)))
print("| property | design-level TLC runs (module/config: distinct states) | conformance stages (records validated by TLC) | wall s |")
print("|---|---|---|---|")
for f in sorted(glob.glob(os.path.join(ROOT, "evidence", "C*.json"))):
    e = json.load(open(f))
    c = e["coverage"]
    models = "; ".join(f"{m['module']}/{m['cfg'].replace('.cfg','')}: {m['distinct_states']}" for m in c.get("models", [])) or "-"
    stages = ", ".join(f"{s['stage']} ({s['records']})" for s in c.get("stages", []))
    print(f"| {e['property_id']} | {models} | {stages} | {e['wall_s']:.0f} |")
