#!/usr/bin/env python3
"""Refresh seeded/<id>/meta.json from work/seeded_eval/<id>.json and print the markdown table of DESIGN.md section 11."""
import glob, json, os, re
ROOT = os.path.dirname(os.path.dirname(os.path.abspath(__file__)))
rows = []
for d in sorted(glob.glob(os.path.join(ROOT, "seeded", "C*"))):
    name = os.path.basename(d)
    pid = name.split("_")[0]
    notes = open(os.path.join(d, "notes.txt")).read().strip()
    ev_path = os.path.join(ROOT, "work", "seeded_eval", name + ".json")
    meta_path = os.path.join(d, "meta.json")
    meta = json.load(open(meta_path)) if os.path.exists(meta_path) else {
        "id": name, "breaks_property": pid, "needs_to_manifest": notes,
        "origin": "written by an independent sub-agent given only the property text and a scratch worktree of /repo, "
                  "nothing from /verif"}
    if os.path.exists(ev_path):
        r = json.load(open(ev_path))
        meta["confirmed"] = {"demo_passes_on_unchanged_tree": r.get("demo_passes_unchanged"),
                             "patch_applies": r.get("patch_applies"),
                             "repository_tests_pass_with_patch": r.get("tests_pass_with_patch"),
                             "demo_fails_with_patch": r.get("demo_fails_with_patch"),
                             "how": "tools/eval_seeded.py: scratch git worktree of /repo under /var/tmp, demo on the "
                                    "unchanged tree, git apply, pytest tests, demo again, then ./check <property> --tier "
                                    "quick with CORANKCO_REPO=<scratch>; worktree removed"}
        meta["last_evaluation"] = {k: {"caught": v["caught"], "clauses": [re.sub(r"^VIOLATION-SUMMARY property=\S+ ", "", s)
                                                                           for s in v["summary"][:3]]}
                                   for k, v in r.get("checks", {}).items()}
    json.dump(meta, open(meta_path, "w"), indent=1)
    le = meta.get("last_evaluation", {})
    caught = all(v["caught"] for v in le.values()) if le else None
    clause = "; ".join(c for v in le.values() for c in v["clauses"][:1])
    first = notes.split("\n")[0][:110]
    rows.append((name, pid, "yes" if caught else ("NO" if caught is False else "?"), clause[:80], first))
print("| seeded change | property | caught by its quick check | first failing clause | what it is (first line of its notes) |")
print("|---|---|---|---|---|")
for r in rows:
    print("| " + " | ".join(r) + " |")
n = len(rows); c = sum(1 for r in rows if r[2] == "yes")
print(f"\n{c} of {n} caught.")
