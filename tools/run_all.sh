#!/bin/sh
# run every check at a tier (default quick), print the SUMMARY lines and exit codes
cd "$(dirname "$0")/.." || exit 2
tier=${1:-quick}
mkdir -p work
for p in C01 C02 C03 C04 C05 C06 C07 C08 C09 C10 C11 C12 C13 C14 C15 C16 C17 C18 C19 C20; do
  ./check $p --tier $tier > work/last_$p.log 2>&1; rc=$?
  echo "$p rc=$rc $(grep SUMMARY work/last_$p.log)"
done
