#!/venv/bin/python
"""Search (with the library itself, only to PICK inputs) for small datasets whose ParCons partition has two or more
CONSECUTIVE groups of three elements or more, none of which can be all tied at minimal cost: the inputs on which
ParCons hands several components in a row to the exact model / the auxiliary algorithm.
Writes harness/corpus/multi_component.json (datasets as lists of lists of lists of element numbers + scheme index)."""
import json, os, random, sys
from multiprocessing import Pool
ROOT = os.path.dirname(os.path.dirname(os.path.abspath(__file__)))
sys.path.insert(0, ROOT)
SCHEMES = [([0, 4, 4, 0, 4, 4], [4, 4, 0, 4, 4, 0], 4), ([0, 4, 2, 0, 4, 2], [2, 2, 0, 2, 2, 0], 4), ([0, 4, 4, 0, 0, 0], [4, 4, 0, 0, 0, 0], 4)]


def work(seed):
    from harness import core
    core.setup_impl_env()
    from harness.props import algo_common as ac
    from corankco.dataset import Dataset
    from corankco.scoringscheme import ScoringScheme
    from corankco.partitioning.ordered_partition import OrderedPartition
    from corankco.algorithms.parcons.parcons import ParCons
    rng = random.Random(seed)
    found = []
    for _ in range(3000):
        D = ac.random_dataset(rng, 8, 4, nmin=6)
        si = rng.randrange(3)
        B, T, u = SCHEMES[si]
        try:
            ds = Dataset.from_raw_list([[set(b) for b in r] for r in D])
            ss = ScoringScheme(core.scheme_float(B, T, u))
            _, mat = ParCons.graph_of_elements(ds.get_positions(), ss)
            groups = [g for g in OrderedPartition.parcons_partition(ds, ss)]
            hard = [len(g) >= 3 and not ParCons.can_be_all_tied({ds.mapping_elem_id[e] for e in g}, mat) for g in groups]
            if any(hard[k] and hard[k + 1] for k in range(len(hard) - 1)):
                found.append({"D": D, "sch": si})
        except Exception:
            pass
    return found


if __name__ == "__main__":
    n = int(sys.argv[1]) if len(sys.argv) > 1 else 60
    out = []
    with Pool(14) as p:
        for f in p.imap_unordered(work, range(n)):
            out += f
    out = out[:400]
    json.dump(out, open(os.path.join(ROOT, "harness", "corpus", "multi_component.json"), "w"))
    print(len(out), "datasets")
