#!/venv/bin/python
"""Search (with the library itself, only to PICK inputs) for small COMPLETE datasets on which the local search of
BioConsert started from the FIRST input ranking alone ends strictly above the score of another input ranking: the inputs
on which a dropped starting point shows in the result.  Writes harness/corpus/start_sensitive.json."""
import json, os, random, sys
from multiprocessing import Pool
ROOT = os.path.dirname(os.path.dirname(os.path.abspath(__file__)))
sys.path.insert(0, ROOT)
SCHEMES = [([0, 4, 4, 0, 4, 4], [4, 4, 0, 4, 4, 0], 4), ([0, 4, 2, 0, 4, 2], [2, 2, 0, 2, 2, 0], 4), ([0, 4, 4, 0, 0, 0], [4, 4, 0, 0, 0, 0], 4)]


def work(seed):
    from harness import core
    core.setup_impl_env()
    from corankco.dataset import Dataset
    from corankco.consensus import Consensus
    from corankco.scoringscheme import ScoringScheme
    from corankco.kemeny_score_computation import KemenyComputingFactory
    from corankco.algorithms.bioconsert.bioconsert import BioConsert
    from corankco.algorithms.rank_aggregation_algorithm import RankAggAlgorithm

    class First(RankAggAlgorithm):
        def compute_consensus_rankings(self, dataset, scoring_scheme, return_at_most_one_ranking=True, bench_mode=False):
            return Consensus([dataset.rankings[0]], dataset, scoring_scheme)

        def get_full_name(self):
            return "first"

        def is_scoring_scheme_relevant_when_incomplete_rankings(self, scoring_scheme):
            return True
    rng = random.Random(seed)
    found = []
    for _ in range(3000):
        n = rng.randint(4, 7)
        m = rng.randint(3, 4)
        D = []
        for _r in range(m):
            p = list(range(1, n + 1))
            rng.shuffle(p)
            r, cur = [], []
            for e in p:
                cur.append(e)
                if rng.random() < (.85 if seed % 2 else 1.):
                    r.append(sorted(cur))
                    cur = []
            if cur:
                r.append(sorted(cur))
            D.append(r)
        si = rng.randrange(3)
        B, T, u = SCHEMES[si]
        try:
            ds = Dataset.from_raw_list([[set(b) for b in r] for r in D])
            ss = ScoringScheme(core.scheme_float(B, T, u))
            k = KemenyComputingFactory(ss)
            d = BioConsert(starting_algorithms=[First()]).compute_consensus_rankings(ds, ss, True).kemeny_score
            best = min(k.get_kemeny_score(r, ds) for r in ds.rankings)
            if d > best + 1e-9:
                found.append({"D": D, "sch": si})
        except Exception:
            pass
    return found


if __name__ == "__main__":
    n = int(sys.argv[1]) if len(sys.argv) > 1 else 64
    out = []
    with Pool(8) as p:
        for f in p.imap_unordered(work, range(n)):
            out += f
    json.dump(out[:400], open(os.path.join(ROOT, "harness", "corpus", "start_sensitive.json"), "w"))
    print(len(out), "datasets")
