#!/usr/bin/env python3
"""Generate MANIFEST.json from the table below (one entry per claimed property)."""
import json
import os

ROOT = os.path.dirname(os.path.dirname(os.path.abspath(__file__)))
TRUST = ("TLC 1.8 + CommunityModules; the TLA+ modules under spec/ (reviewed against the property text, tied "
         "together by the MC_* theorems); harness/core.py (projection/concretisation, no oracle arithmetic); "
         "CPython/numpy; bounded spaces as stated in the evidence file")

TRACE = ("TLC evaluates the property's clauses (TLA+ definitions in spec/) on every recorded library call "
         "(trace validation, total verdict per call); inputs: TLC-exported exhaustive small grids + seeded random")

CLAIMED = {
    "C01": dict(
        technique="TLA+ definition of the score evaluated by TLC on recorded library calls (trace validation, "
                  "exhaustive small grid + seeded random), design theorems model-checked in MC_Kemeny; the O(n log n) "
                  "counting algorithm transcribed in TLA+ (KemenyAlgo) and proved equal to the definition by TLC",
        text="Bounded-exhaustive model-based check: every dataset of <=2 (thorough: <=3) partial rankings over 3 "
             "elements x every candidate over subsets of 4 elements is scored by the library under presets, "
             "probing and sampled grid schemes; TLC recomputes the score from the definition (spec/Kemeny.tla) "
             "and gives a total verdict per call; the refusal clause is decided the same way.",
        ref="6 C01"),
    "C02": dict(
        technique="TLA+ cost-table definition (Kemeny!Cost) vs recorded tables, entry-wise, by TLC; Mirror/ScoreTable "
                  "theorems model-checked (MC_Kemeny)",
        text="Every dataset of the small grid x presets and probing schemes: the table built from positions and from "
             "bucket ids is compared entry-wise with the definition, the mirror identities are checked on the logged "
             "table and its selected entries are summed against the library's own score of every bucket order.",
        ref="6 C02"),
    "C03": dict(technique=TRACE + "; spec/Trace_Algo.tla clause V03 (well-formed consensus over the universe)",
                text="25 algorithm configurations (starters, auxiliaries, solver back-ends, stand-in CPLEX) x every dataset "
                     "of the small grid x rotating schemes/namings/flags; TLC decides well-formedness, universe equality "
                     "and type preservation (through the projection) of every returned ranking.",
                ref="6 C03"),
    "C04": dict(technique=TRACE + "; clause V04 (reported score = definitional score of every returned ranking)",
                text="Same runs as C03 plus non-dyadic schemes: the score read from the consensus object (on demand and "
                     "as supplied by the algorithm) is compared by TLC with the score of EVERY returned ranking.",
                ref="6 C04"),
    "C05": dict(technique=TRACE + "; optimum by brute force / subset DP in TLA+; ILP model theorems (MC_ILP) model-checked",
                text="Compositional: (i) the ILP rows admit exactly the bucket-order encodings and the objective is the "
                     "score (TLC, all assignments n<=4/5); (ii) every exact configuration, with CPLEX absent and with the "
                     "CPLEX API present (stand-in), returns rankings whose score equals the optimum TLC computes over all "
                     "bucket orders; the all-optima set is compared with OptSet.",
                ref="6 C05"),
    "C06": dict(technique=TRACE + "; ParCons design theorem model-checked on the grid (MC_Partition); clauses V06/VPart",
                text="Design level: for every dataset of the grid and EVERY topological order of the components some "
                     "optimal consensus respects it (TLC). Code level: the library's partition and ParCons runs under 7 "
                     "parameterisations x 2 environments are validated against OptSet; the flag clause on all algorithms.",
                ref="6 C06"),
    "C07": dict(technique=TRACE + "; ParFront merge loop as a TLA+ step machine model-checked (MC_Partition); "
                                  "consistency relation evaluated by TLC on all (partition, ranking) pairs; the consistency walk as a "
                                  "TLA+ state machine (ConsistWalk) model-checked against the relation",
                text="Design level: the merge fixpoint of every topological order is respected by EVERY optimal consensus "
                     "(TLC, all datasets of the grid). Code level: the library's ParFront partition is checked against "
                     "OptSet and the ParCons partition; consistent_with is compared with the relation on all pairs over "
                     "<=3 (thorough 4) elements.",
                ref="6 C07"),
    "C08": dict(technique=TRACE + "; LocalSearchDefs!LocalOpt (all single-element moves, exact scores); the search "
                                  "kernels transcribed as a TLA+ state machine (BioScan) model-checked from every "
                                  "departure ranking, theorem DeltaExact for every cost table, move-by-move trace "
                                  "validation on the un-jitted kernels",
                text="Every ranking returned by 7 BioConsert configurations on the grid and on random/threshold "
                     "datasets is checked by TLC against every join/new-bucket move with the 0.001 threshold.",
                ref="6 C08"),
    "C09": dict(technique=TRACE + "; starting points computed by the specification or captured by wrapper algorithms",
                text="TLC scores every starting point (unified inputs + all-tied, or the starters' recorded consensus) "
                     "and every returned ranking: never worse, all returned rankings share one score.",
                ref="6 C09"),
    "C10": dict(technique=TRACE + "; clause V10 (subset of unified inputs, minimal, all minimal when requested, refusal)",
                text="PickAPerm on every dataset of the grid x 10 schemes x both flags; TLC computes the unified inputs, "
                     "their scores, the minimum and the refusal condition.",
                ref="6 C10"),
    "C12": dict(technique=TRACE + "; Positional!BordaOK (means compared by cross-multiplication)",
                text="Both Borda variants on every dataset of the grid x 14 schemes (4 families, multiples, near-family) "
                     "plus permuted/renamed random datasets; TLC requires the consensus order to be exactly the order of "
                     "the means and decides refusals.",
                ref="6 C12"),
    "C13": dict(technique=TRACE + "; Positional!Copeland* from the definitional cost table",
                text="Copeland on every dataset of the grid x presets and grid schemes: order, per-element scores, "
                     "victory/equality/defeat counts and their sums are recomputed by TLC.",
                ref="6 C13"),
    "C14": dict(technique=TRACE + "; clause V14 (predicate total; relevant => accepted and well-formed; refusal iff not relevant)",
                text="25 configurations incl. nested ones x 31+ schemes x complete/incomplete datasets, selector and "
                     "ParCons in both solver environments.",
                ref="6 C14"),
    "C11": dict(technique="KwikSort as a TLA+ step machine model-checked over every pivot schedule (KwikSort.tla); real runs "
                          "under EVERY schedule (controlled pivot chooser) validated step by step by TLC (Trace_Kwik)",
                text="Design level: blocks partition the universe, progress, coherent preferences => the coherent ranking, "
                     "for every schedule of every dataset of the grid. Code level: exhaustive depth-first re-execution "
                     "over all pivot schedules; every logged (group, pivot) step is checked against the cheapest pairwise "
                     "placement computed from the definitional cost table.",
                ref="6 C11"),
    "C15": dict(technique="histories enumerated by TLC from Session.tla (all sequences of <=3 calls over 16 call kinds) "
                          "replayed on shared objects; abstract + deep snapshots and results validated by TLC (Trace_Session)",
                text="Every history is replayed on one shared Dataset/ScoringScheme and on fresh copies; after each call "
                     "the abstract state, the private fields and the identities of the containers must be unchanged, "
                     "deterministic results must equal the fresh-copy results and earlier identical calls.",
                ref="6 C15"),
    "C16": dict(technique="Dataset life cycle as a TLA+ state machine (MC_DatasetSM); every transition, all length-2 paths "
                          "of a sub-grid and random 6-10 step paths replayed on one live object; every accessor validated "
                          "against the reported buckets by TLC (Trace_Dataset)",
                text="After every construction/mutation TLC recomputes positions, domains, sizes, universe, both id maps, "
                     "types, flags and both matrices from the buckets the object reports and compares them with the "
                     "accessors; same for unified rankings/dataset and projections (with their stated semantics).",
                ref="6 C16"),
    "C17": dict(technique=TRACE + "; equality = equality of bags of rankings (RankBase!Bag); concrete insertion orders are "
                                  "part of the generated cases",
                text="Pairs built with explicit bucket insertion orders under hash-colliding names: equal datasets in other "
                     "concrete representations, every near miss, unrelated datasets; reflexivity, symmetry, != and "
                     "consistency with ranking equality.",
                ref="6 C17"),
    "C18": dict(technique="texts rendered by the TLA+ format specification (TextFormat!Render, injectivity model-checked) "
                          "parsed by the library; all strings over the alphabet enumerated by TLC for totality; file round "
                          "trip decided by TLC on bags of rankings",
                text="Every partial ranking x 108 textual variants x 4 naming kinds must parse to an equal ranking; every "
                     "string of length <= 5 (thorough 6) must parse or raise ValueError (2 s watchdog); every dataset of "
                     "the grid written and read back must be the same bag of rankings.",
                ref="6 C18"),
    "C19": dict(technique=TRACE + "; Scheme!Valid / Proportional / Nickname / Scale evaluated by TLC (Trace_Scheme)",
                text="All 3^12 twelve-tuples over {0,1,2} for validation, malformed shapes/types with the exact exception "
                     "class, scaling by dyadic factors with the original untouched and score homogeneity through the real "
                     "score, all pairs of a closed scheme sample for both equivalence variants and the nickname.",
                ref="6 C19"),
    "C20": dict(technique="generator moves as a TLA+ state machine (MarkovGen, dense-numbering invariant model-checked up to "
                          "n=8); every transition of the model graph replayed on the real step functions; real walks "
                          "validated step by step (Trace_Markov)",
                text="Spec -> code: every (reachable vector, element, draw) for n <= 5 (thorough 6) executed on the real "
                     "dispatcher. Code -> spec: every intermediate vector of real generator runs must be dense and each "
                     "step a model step. Outputs of the four public generators over the (n, m, steps, complete) grid.",
                ref="6 C20"),
}

NOT_YET = "check not built yet in this session (planned in DESIGN.md section 6); not claimed until it runs"


def main():
    props = [json.loads(l) for l in open(os.path.join(ROOT, "properties.jsonl"))]
    checks = []
    na = []
    for p in props:
        pid = p["id"]
        c = CLAIMED.get(pid)
        if not c:
            na.append({"property_id": pid, "reason": NOT_YET})
            continue
        checks.append({
            "property_id": pid,
            "quick_cmd": f"./check {pid} --tier quick",
            "thorough_cmd": f"./check {pid} --tier thorough",
            "evidence_file": f"evidence/{pid}.json",
            "replay_cmd_template": f"./check {pid} --replay {{path}}",
            "engine": "tlc-trace",
            "level_claimed": {"category": "model_checking", "text": c["text"], "design_ref": c["ref"]},
            "level_note": c.get("note", TRUST),
            "technique": c["technique"],
        })
    man = {
        "version": 1,
        "setup_cmd": "./setup.sh",
        "hooks": {
            "guard": "CORANKCO_VERIF",
            "enable": "no source hooks: the harness wraps documented extension points and module globals from "
                      "outside (DESIGN.md 4.3); checks export CORANKCO_VERIF=1 for uniformity",
            "baseline_off_cmd": "cd /repo && /venv/bin/python -m pytest -ra -q -p no:cacheprovider --timeout=900 "
                                "--continue-on-collection-errors",
            "source_commits": [],
            "add_only": True,
        },
        "engines": [
            {"name": "tlc-trace", "path": "harness/framework.py",
             "serves_properties": [c["property_id"] for c in checks],
             "kind_free_text": "explicit TLA+ specification (spec/*.tla) checked by TLC; implementation behaviours "
                               "recorded by harness/props/*.py are validated by Trace_* specifications; TLC-generated "
                               "inputs/behaviours are replayed into the implementation"},
        ],
        "checks": checks,
        "not_applicable": na,
        "notes": "See DESIGN.md. Exit 2 = machinery failure. known_findings.json lists findings and fixed defects.",
    }
    with open(os.path.join(ROOT, "MANIFEST.json"), "w") as f:
        json.dump(man, f, indent=1)
    print(f"{len(checks)} claimed, {len(na)} not yet")


if __name__ == "__main__":
    main()
