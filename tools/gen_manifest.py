#!/usr/bin/env python3
"""Generate MANIFEST.json from the table below (one entry per claimed property)."""
import json
import os

ROOT = os.path.dirname(os.path.dirname(os.path.abspath(__file__)))
TRUST = ("TLC 1.8 + CommunityModules; the TLA+ modules under spec/ (reviewed against the property text, tied "
         "together by the MC_* theorems); harness/core.py (projection/concretisation, no oracle arithmetic); "
         "CPython/numpy; bounded spaces as stated in the evidence file")

CLAIMED = {
    "C01": dict(
        technique="TLA+ definition of the score evaluated by TLC on recorded library calls (trace validation, "
                  "exhaustive small grid + seeded random), design theorems model-checked in MC_Kemeny",
        text="Bounded-exhaustive model-based check: every dataset of <=2 (thorough: <=3) partial rankings over 3 "
             "elements x every candidate over subsets of 4 elements is scored by the library under presets, "
             "probing and sampled grid schemes; TLC recomputes the score from the definition (spec/Kemeny.tla) "
             "and gives a total verdict per call; the refusal clause is decided the same way.",
        ref="6 C01"),
}

NOT_YET = "check not built yet in this session (planned in DESIGN.md section 6); not claimed until it runs"


def main():
    props = [json.loads(l) for l in open(os.path.join(ROOT, "properties.jsonl"))]
    checks = []
    na = []
    for p in props:
        pid = p["id"]
        c = CLAIMED.get(pid)
        if not c:
            na.append({"property_id": pid, "reason": NOT_YET})
            continue
        checks.append({
            "property_id": pid,
            "quick_cmd": f"./check {pid} --tier quick",
            "thorough_cmd": f"./check {pid} --tier thorough",
            "evidence_file": f"evidence/{pid}.json",
            "replay_cmd_template": f"./check {pid} --replay {{path}}",
            "engine": "tlc-trace",
            "level_claimed": {"category": "model_checking", "text": c["text"], "design_ref": c["ref"]},
            "level_note": c.get("note", TRUST),
            "technique": c["technique"],
        })
    man = {
        "version": 1,
        "setup_cmd": "./setup.sh",
        "hooks": {
            "guard": "CORANKCO_VERIF",
            "enable": "no source hooks: the harness wraps documented extension points and module globals from "
                      "outside (DESIGN.md 4.3); checks export CORANKCO_VERIF=1 for uniformity",
            "baseline_off_cmd": "cd /repo && /venv/bin/python -m pytest -ra -q -p no:cacheprovider --timeout=900 "
                                "--continue-on-collection-errors",
            "source_commits": [],
            "add_only": True,
        },
        "engines": [
            {"name": "tlc-trace", "path": "harness/framework.py",
             "serves_properties": [c["property_id"] for c in checks],
             "kind_free_text": "explicit TLA+ specification (spec/*.tla) checked by TLC; implementation behaviours "
                               "recorded by harness/props/*.py are validated by Trace_* specifications; TLC-generated "
                               "inputs/behaviours are replayed into the implementation"},
        ],
        "checks": checks,
        "not_applicable": na,
        "notes": "See DESIGN.md. Exit 2 = machinery failure. known_findings.json lists findings and fixed defects.",
    }
    with open(os.path.join(ROOT, "MANIFEST.json"), "w") as f:
        json.dump(man, f, indent=1)
    print(f"{len(checks)} claimed, {len(na)} not yet")


if __name__ == "__main__":
    main()
