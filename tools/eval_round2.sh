#!/bin/sh
# evaluate the round-2 seeded changes (ids _4 _5 _6), three at a time
cd "$(dirname "$0")/.." || exit 2
mkdir -p work/seeded_eval
ls -d seeded/C*_[456] | xargs -P 3 -I{} sh -c 'name=$(basename {}); pid=${name%%_*}; tools/eval_seeded.py {} $pid > work/seeded_eval/$name.json 2> work/seeded_eval/$name.err; python3 -c "
import json,sys
r=json.load(open(\"work/seeded_eval/$name.json\"))
print(\"$name\", r.get(\"demo_passes_unchanged\"), r.get(\"tests_pass_with_patch\"), r.get(\"demo_fails_with_patch\"), {k:v[\"caught\"] for k,v in r.get(\"checks\",{}).items()}, flush=True)"'
