#!/venv/bin/python
"""Search (with the library itself, un-jitted, only to PICK inputs) for datasets of 30 elements on which the local
search of BioConsert needs MANY passes over the elements before it stops (12 and more, for the departure ranking that
gives the returned consensus).  Writes harness/corpus/slow_local.json."""
import json, os, random, sys
os.environ["NUMBA_DISABLE_JIT"] = "1"
from multiprocessing import Pool
ROOT = os.path.dirname(os.path.dirname(os.path.abspath(__file__)))
sys.path.insert(0, ROOT)
SCHEMES = [([0, 4, 2, 0, 4, 2], [2, 2, 0, 2, 2, 0], 4), ([0, 4, 2, 0, 4, 0], [2, 2, 0, 2, 2, 0], 4)]
N = 30
MIN_PASSES = 12


def work(seed):
    from harness import core
    core.setup_impl_env()
    os.environ["NUMBA_DISABLE_JIT"] = "1"
    from harness.props import algo_common as ac
    from corankco.dataset import Dataset
    from corankco.scoringscheme import ScoringScheme
    import corankco.algorithms.bioconsert.bioconsert as bc
    calls = [0]
    per_search = []
    orig_delta, orig_improve = bc._compute_delta_costs, bc._improve_one_ranking

    def delta(*a):
        calls[0] += 1
        return orig_delta(*a)

    def improve(r, c, n):
        calls[0] = 0
        d = orig_improve(r, c, n)
        per_search.append((calls[0] // n, d))
        return d
    bc._compute_delta_costs, bc._improve_one_ranking = delta, improve
    rng = random.Random(seed)
    found = []
    for _ in range(200):
        D = ac.random_dataset(rng, N, 6, nmin=N)
        if len(D) < 2:
            continue
        si = 0
        B, T, u = SCHEMES[si]
        try:
            ds = Dataset.from_raw_list([[set(b) for b in r] for r in D])
            ss = ScoringScheme(core.scheme_float(B, T, u))
            # single-start configurations: the slow search IS the returned consensus
            from corankco.algorithms.bioconsert.bioco import BioCo
            from corankco.algorithms.pickaperm.pickaperm import PickAPerm
            for cfg, alg in (("BioCo", BioCo()), ("Bio[PickAPerm]", bc.BioConsert([PickAPerm()]))):
                del per_search[:]
                try:
                    alg.compute_consensus_rankings(ds, ss, True)
                except Exception:
                    continue
                if len(per_search) == 1 and per_search[0][0] >= MIN_PASSES:
                    found.append({"D": D, "sch": si, "passes": per_search[0][0], "cfg": cfg})
        except Exception:
            pass
    return found


if __name__ == "__main__":
    n = int(sys.argv[1]) if len(sys.argv) > 1 else 48
    out = []
    with Pool(8) as p:
        for f in p.imap_unordered(work, range(n)):
            out += f
    out.sort(key=lambda e: -e["passes"])
    json.dump(out[:60], open(os.path.join(ROOT, "harness", "corpus", "slow_local.json"), "w"))
    print(len(out), "datasets; passes:", [e["passes"] for e in out[:20]])
