#!/venv/bin/python
"""Search (with the library itself, only to PICK inputs) for small datasets on which the default BioConsert ends
strictly above the consensus of Borda or Copeland: the inputs on which a lost / altered starting point shows.
Writes harness/corpus/hard_local.json (datasets as lists of lists of lists of element numbers + scheme index)."""
import json, os, random, sys
from multiprocessing import Pool
ROOT = os.path.dirname(os.path.dirname(os.path.abspath(__file__)))
sys.path.insert(0, ROOT)
SCHEMES = [([0, 4, 4, 0, 4, 4], [4, 4, 0, 4, 4, 0], 4), ([0, 4, 2, 0, 4, 2], [2, 2, 0, 2, 2, 0], 4), ([0, 4, 4, 0, 0, 0], [4, 4, 0, 0, 0, 0], 4)]


def work(seed):
    from harness import core
    core.setup_impl_env()
    from harness.props import algo_common as ac
    from corankco.dataset import Dataset
    from corankco.scoringscheme import ScoringScheme
    from corankco.algorithms.bioconsert.bioconsert import BioConsert
    from corankco.algorithms.borda.borda import BordaCount
    from corankco.algorithms.copeland.copeland import CopelandMethod
    rng = random.Random(seed)
    found = []
    for _ in range(4000):
        D = ac.random_dataset(rng, 7, 6, nmin=4)
        si = rng.randrange(3)
        B, T, u = SCHEMES[si]
        try:
            ds = Dataset.from_raw_list([[set(b) for b in r] for r in D])
            ss = ScoringScheme(core.scheme_float(B, T, u))
            d = BioConsert().compute_consensus_rankings(ds, ss, True).kemeny_score
            best = min(a.compute_consensus_rankings(ds, ss, True).kemeny_score for a in (BordaCount(), CopelandMethod()))
            if d > best + 1e-9:
                found.append({"D": D, "sch": si})
        except Exception:
            pass
    return found


if __name__ == "__main__":
    n = int(sys.argv[1]) if len(sys.argv) > 1 else 200
    out = []
    with Pool(14) as p:
        for f in p.imap_unordered(work, range(n)):
            out += f
    os.makedirs(os.path.join(ROOT, "harness", "corpus"), exist_ok=True)
    json.dump(out, open(os.path.join(ROOT, "harness", "corpus", "hard_local.json"), "w"))
    print(len(out), "datasets")
