#!/bin/sh
# Offline setup: parse every specification module, export the input grids, warm the numba cache.
cd "$(dirname "$0")" || exit 1
export PYTHONHASHSEED=0 PYTHONDONTWRITEBYTECODE=1
export NUMBA_CACHE_DIR="$(pwd)/work/numba"
mkdir -p work/numba work/tlc evidence
rc=0
for f in spec/*.tla; do
  m=$(basename "$f" .tla)
  (cd spec && java -cp /opt/veriftools/tla/tla2tools.jar:/opt/veriftools/tla/CommunityModules-deps.jar tla2sany.SANY "$m.tla" >../work/tlc/sany_$m.log 2>&1) || { echo "SANY failed on $m"; tail -5 work/tlc/sany_$m.log; rc=1; }
done
/venv/bin/python - <<'PY' || rc=1
from harness import grids, core
for n, m in ((3, 2),):
    print("grid", n, m, len(grids.datasets(n, m)))
print("partial4", len(grids.partial(4)))
core.import_impl()
from corankco.dataset import Dataset
from corankco.scoringscheme import ScoringScheme
from corankco.algorithms.bioconsert.bioconsert import BioConsert
d = Dataset.from_raw_list([[{1}, {2}], [{2}, {1}]])
print("warm", BioConsert().compute_consensus_rankings(d, ScoringScheme.get_unifying_scoring_scheme_p(.5), True))
PY
exit $rc
