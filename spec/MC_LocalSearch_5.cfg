CONSTANTS NMax = 5
