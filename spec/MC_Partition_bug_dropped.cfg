SPECIFICATION Spec
CONSTANTS
  N = 3
  M = 3
  B <- B_uni5
  T <- T_uni5
  BackTo = 1
INVARIANT SubDroppedSound
CHECK_DEADLOCK FALSE
