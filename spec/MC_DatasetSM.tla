---------------------------- MODULE MC_DatasetSM ----------------------------
(***************************************************************************)
(* The Dataset life cycle as a behaviour specification over the small      *)
(* grid: build a dataset, then apply any sequence of mutators.  Invariants *)
(* say what every reachable state looks like; the conformance checks       *)
(* replay single transitions, all length-2 paths of a sub-grid and random  *)
(* longer paths on one live object.                                        *)
(***************************************************************************)
EXTENDS DatasetSM

CONSTANTS N, M, MaxOps

VARIABLES rk, phase, nops, last
vars == <<rk, phase, nops, last>>

PR == PartialRankings(1..N)
Rates == {<<0, 1>>, <<1, 3>>, <<1, 2>>, <<2, 3>>, <<1, 1>>, <<2, 1>>}

Init == rk = <<>> /\ phase = "build" /\ nops = 0 /\ last = "none"
AddRanking(r) == phase = "build" /\ Len(rk) < M /\ rk' = Append(rk, r) /\ UNCHANGED <<phase, nops, last>>
Construct == phase = "build" /\ Acceptable(rk) /\ phase' = "live" /\ UNCHANGED <<rk, nops>> /\ last' = "construct"

Apply(new, name) == /\ phase = "live" /\ nops < MaxOps /\ nops' = nops + 1 /\ UNCHANGED phase
                    /\ IF Acceptable(new) THEN rk' = new /\ last' = name
                       ELSE rk' = rk /\ last' = "refused"
RemoveElements(S) == Apply(RemoveElementsF(rk, S), "remove_elements")
RemoveRate(pq)    == Apply(RemoveRateF(rk, pq[1], pq[2]), "remove_rate")
RemoveEmpty       == Apply(RemoveEmptyF(rk), "remove_empty")

Next == \/ \E r \in PR : AddRanking(r)
        \/ Construct
        \/ \E S \in SUBSET (1..(N + 1)) : RemoveElements(S)
        \/ \E pq \in Rates : RemoveRate(pq)
        \/ RemoveEmpty
Spec == Init /\ [][Next]_vars

LiveIsDataset == phase = "live" => IsDataset(rk)
\* mutators never add elements, never reorder, and removal of S removes exactly S \cap universe
Shrinks == [][phase = "live" /\ phase' = "live" =>
                 /\ Universe(rk') \subseteq Universe(rk)
                 /\ Len(rk') <= Len(rk)]_vars
RemoveEmptyIdempotent == phase = "live" => RemoveEmptyF(RemoveEmptyF(rk)) = RemoveEmptyF(rk)
UnifiedIsComplete == phase = "live" => IsCompleteDS(UnifiedDS(rk)) /\ Universe(UnifiedDS(rk)) = Universe(rk)
SubProblemOK == phase = "live" => \A S \in SUBSET Universe(rk) : S # {} =>
                   /\ Universe(SubProblem(rk, S)) = S
                   /\ \A k \in DOMAIN SubProblem(rk, S) : SubProblem(rk, S)[k] # <<>>
=============================================================================
