-------------------------- MODULE LocalSearchDefs --------------------------
(***************************************************************************)
(* Single-element moves of a bucket order and local optimality (C08).      *)
(* A ranking over U is handled through its key function 2 * bucket index;  *)
(* a move of element e gives e a new key:                                  *)
(*     even key 2b    : e joins existing bucket b                          *)
(*     odd key 2p - 1 : e becomes a new singleton bucket just before       *)
(*                      bucket p (p = number of buckets + 1: at the end)   *)
(* Scores are exact, from the cost table -- no cumulative arrays.          *)
(***************************************************************************)
EXTENDS Kemeny

Key2(r, U)  == [x \in U |-> 2 * BIdx(r, x)]
Moves(r, U) == {[Key2(r, U) EXCEPT ![e] = kk] : e \in U, kk \in 1..(2 * Len(r) + 1)}

\* the library's threshold: a move is taken only if it gains more than 0.001, i.e. in units of 1/Unit
\* more than Unit/1000
\* (old - new) * 1000 > Unit, written without the product (TLC integers are 32-bit): for integers d and Unit >= 0,
\* d * 1000 > Unit  <=>  d > Unit \div 1000
Improves(old, new, Unit) == (old - new) > (Unit \div 1000)

LocalOpt(r, C, U, Unit) ==
    LET s0 == ScoreK(Key2(r, U), C, U)
    IN \A mv \in Moves(r, U) : ~Improves(s0, ScoreK(mv, C, U), Unit)
=============================================================================
