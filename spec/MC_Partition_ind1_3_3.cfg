SPECIFICATION Spec
CONSTANTS
  N = 3
  M = 3
  B <- B_ind1
  T <- T_ind1
  BackTo = 1
INVARIANT ParConsThm
INVARIANT ParFrontThm
INVARIANT MachineIsDef
INVARIANT PartOptThm
INVARIANT SubSound
PROPERTY Progress
CHECK_DEADLOCK FALSE
