----------------------------- MODULE Positional -----------------------------
(***************************************************************************)
(* Borda and Copeland, stated from their documentation.                    *)
(***************************************************************************)
EXTENDS Kemeny, Scheme

\* ---------------------------------------------------------------- Borda
\* the documented families (up to positive multiples): unifying p=1, p=1/2 ; induced p=1, p=1/2
BordaFamily(B, T) ==
    IF IsUnifying(B, T, 2) \/ IsUnifying(B, T, 1) THEN "unifying"
    ELSE IF IsInduced(B, T, 2) \/ IsInduced(B, T, 1) THEN "induced"
    ELSE "other"

\* score of x in ranking r: number of elements strictly before x, or (bucket-id variant) the number of
\* buckets strictly before x
BordaPoints(r, x, useBid) == IF useBid THEN BIdx(r, x) - 1 ELSE Pos(r, x) - 1

\* sum and number of the rankings that count for x (those that rank it)
BordaSum(Rs, x, useBid) == LET f(k) == BordaPoints(Rs[k], x, useBid)
                           IN MapThenSumSet(f, {k \in DOMAIN Rs : x \in Dom(Rs[k])})
BordaCnt(Rs, x) == Cardinality({k \in DOMAIN Rs : x \in Dom(Rs[k])})

\* k = the (single) consensus ranking over U; unify = the scheme is of the unifying family
BordaOK(k, D, U, unify, useBid) ==
    LET Rs == IF unify THEN UnifiedDS(D) ELSE D
        S  == TLCEval([x \in U |-> BordaSum(Rs, x, useBid)])
        N  == TLCEval([x \in U |-> BordaCnt(Rs, x)])
        Less(x, y) == S[x] * N[y] < S[y] * N[x]           \* mean(x) < mean(y), no division
    IN \A x, y \in U : (BIdx(k, x) < BIdx(k, y)) <=> Less(x, y)

\* ---------------------------------------------------------------- Copeland
CopelandVED(C, U, x) ==
    << Cardinality({y \in U \ {x} : C[<<x, y>>][1] < C[<<x, y>>][2]}),
       Cardinality({y \in U \ {x} : C[<<x, y>>][1] = C[<<x, y>>][2]}),
       Cardinality({y \in U \ {x} : C[<<x, y>>][1] > C[<<x, y>>][2]}) >>
\* twice the Copeland score (1 per victory, 1/2 per equality)
Copeland2(C, U, x) == LET v == CopelandVED(C, U, x) IN 2 * v[1] + v[2]

CopelandOrderOK(k, C, U) ==
    LET S == TLCEval([x \in U |-> Copeland2(C, U, x)])
    IN \A x, y \in U : (BIdx(k, x) < BIdx(k, y)) <=> (S[x] > S[y])
=============================================================================
