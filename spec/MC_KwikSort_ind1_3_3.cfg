SPECIFICATION Spec
CONSTANTS
  N = 3
  M = 3
  B <- B_ind1
  T <- T_ind1
INVARIANT BlocksPartition
INVARIANT PivotIndependent
INVARIANT CoherentDefsAgree
INVARIANT IdenticalRankings
PROPERTY Progress
CHECK_DEADLOCK FALSE
