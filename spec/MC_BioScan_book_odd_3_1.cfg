SPECIFICATION Spec
CONSTANTS
  N = 3
  M = 1
  B <- B_odd
  T <- T_odd
  Unit = 4
INVARIANT DenseInv
INVARIANT Bookkeeping
INVARIANT NeverWorse
INVARIANT DoneIsLocalOpt
PROPERTY Decrease
CHECK_DEADLOCK FALSE
