------------------------------- MODULE Scheme -------------------------------
(***************************************************************************)
(* Scoring schemes.  A scheme is a pair of penalty vectors B ("x before y  *)
(* in the consensus") and T ("x tied with y in the consensus"), each       *)
(* indexed by the status of the pair in an input ranking:                  *)
(*   1 x before y   2 y before x   3 tied   4 only x ranked                *)
(*   5 only y ranked   6 neither ranked.                                   *)
(* Penalties are naturals counted in a global unit chosen by the harness   *)
(* (the code sees q / Unit as a float; with a dyadic unit all sums the     *)
(* code computes are exact).                                               *)
(***************************************************************************)
EXTENDS Naturals, Integers, Sequences, FiniteSets

IsVector(v) == /\ Len(v) = 6 /\ \A i \in 1..6 : v[i] \in Nat

\* the validity constraints, exactly as stated by property C19
Valid(B, T) == /\ IsVector(B) /\ IsVector(T)
               /\ B[1] = 0 /\ B[2] > 0 /\ B[4] <= B[5]
               /\ T[1] = T[2] /\ T[3] = 0 /\ T[4] = T[5]

\* which of the association constraints a well-shaped, non-negative pair of vectors breaks
AssociationOK(B, T) == /\ B[1] = 0 /\ B[2] > 0 /\ B[4] <= B[5]
                       /\ T[1] = T[2] /\ T[3] = 0 /\ T[4] = T[5]

Scale(v, k) == [i \in 1..6 |-> k * v[i]]

\* s1 = k * s2 for some real k > 0, on the first `stop` entries of BOTH vectors
\* (cross-multiplication, no division)
Flat(B, T, stop) == [i \in 1..(2 * stop) |-> IF i <= stop THEN B[i] ELSE T[i - stop]]
Proportional(B1, T1, B2, T2, stop) ==
    LET v == Flat(B1, T1, stop)  w == Flat(B2, T2, stop)  I == 1..(2 * stop)
    IN /\ \A i \in I : (v[i] = 0) <=> (w[i] = 0)
       /\ \A i, j \in I : v[i] * w[j] = v[j] * w[i]

\* the named families; u = the unit, p = the tie/unification cost in units
UnifyingB(u, p) == <<0, u, p, 0, u, p>>      UnifyingT(u, p) == <<p, p, 0, p, p, 0>>
InducedB(u, p)  == <<0, u, p, 0, 0, 0>>      InducedT(u, p)  == <<p, p, 0, 0, 0, 0>>
PseudoB(u, p)   == <<0, u, p, 0, u, 0>>      PseudoT(u, p)   == <<p, p, 0, p, p, 0>>
ExtendedB(u)    == <<0, u, 0, 0, 0, 0>>      ExtendedT(u)    == <<u, u, 0, u, u, u>>

\* any unit works for the family tests since they are up to positive multiples
IsUnifying(B, T, p2) == Proportional(B, T, UnifyingB(2, p2), UnifyingT(2, p2), 6)   \* p = p2/2
IsInduced(B, T, p2)  == Proportional(B, T, InducedB(2, p2), InducedT(2, p2), 6)
IsPseudo(B, T, p2)   == Proportional(B, T, PseudoB(2, p2), PseudoT(2, p2), 6)
IsExtended(B, T)     == Proportional(B, T, ExtendedB(1), ExtendedT(1), 6)

\* nickname as documented: proportionality to the four named schemes with p = 1
Nickname(B, T) == IF IsUnifying(B, T, 2) THEN "UKSP"
                  ELSE IF IsPseudo(B, T, 2) THEN "GPDP"
                  ELSE IF IsInduced(B, T, 2) THEN "IGKS"
                  ELSE IF IsExtended(B, T) THEN "EKS"
                  ELSE "other"
=============================================================================
