------------------------------ MODULE KwikSort ------------------------------
(***************************************************************************)
(* KwikSort as a step machine: the consensus under construction is a       *)
(* sequence of blocks, each final (a bucket of the result) or pending (a   *)
(* group still to be sorted).  One step picks ANY pending block and ANY    *)
(* pivot in it -- every random pivot schedule is a behaviour.  The code    *)
(* recurses depth-first, left to right; the order in which pending blocks  *)
(* are processed does not change the result, so the model leaves it free.  *)
(***************************************************************************)
EXTENDS KwikSortDefs, Scheme

CONSTANTS N, M, B, T

VARIABLES ds, phase, blocks
vars == <<ds, phase, blocks>>

PR == PartialRankings(1..N)
U  == Universe(ds)
C  == Cost(ds, B, T, U)

Blk(s, f) == [s |-> s, fin |-> f]
\* a group of exactly one element is appended directly as a bucket (kwiksortabs.py)
Sub(s) == IF s = {} THEN <<>> ELSE <<Blk(s, Cardinality(s) = 1)>>

Init == ds = <<>> /\ phase = "build" /\ blocks = <<>>
AddRanking(r) == phase = "build" /\ Len(ds) < M /\ ds' = Append(ds, r) /\ UNCHANGED <<phase, blocks>>
Start == phase = "build" /\ Len(ds) >= 1 /\ U # {} /\ phase' = "sort" /\ blocks' = <<Blk(U, FALSE)>> /\ UNCHANGED ds
Pivot(k, p) ==
    /\ phase = "sort" /\ k \in DOMAIN blocks /\ ~blocks[k].fin /\ p \in blocks[k].s
    /\ LET G == blocks[k].s IN
       blocks' = SubSeq(blocks, 1, k - 1) \o Sub(Before(C, G, p)) \o <<Blk(Same(C, G, p), TRUE)>>
                 \o Sub(After(C, G, p)) \o SubSeq(blocks, k + 1, Len(blocks))
    /\ UNCHANGED <<ds, phase>>
Next == \/ \E r \in PR : AddRanking(r)
        \/ Start
        \/ \E k \in DOMAIN blocks : \E p \in blocks[k].s : Pivot(k, p)
Spec == Init /\ [][Next]_vars
FairSpec == Spec /\ WF_vars(\E k \in DOMAIN blocks : \E p \in blocks[k].s : Pivot(k, p))

B_uni5 == <<0,4,2,0,4,2>>
T_uni5 == <<2,2,0,2,2,0>>
B_uni1 == <<0,4,4,0,4,4>>
T_uni1 == <<4,4,0,4,4,0>>
B_ind1 == <<0,4,4,0,0,0>>
T_ind1 == <<4,4,0,0,0,0>>
B_pse5 == <<0,4,2,0,4,0>>
T_pse5 == <<2,2,0,2,2,0>>
B_ext == <<0,4,0,0,0,0>>
T_ext == <<4,4,0,4,4,4>>
B_odd == <<0,3,1,1,2,2>>
T_odd == <<2,2,0,1,1,3>>

ASSUME Valid(B, T)

Terminal == phase = "sort" /\ \A k \in DOMAIN blocks : blocks[k].fin
Result   == [k \in DOMAIN blocks |-> blocks[k].s]

\* the blocks always partition the universe (C03 for every pivot schedule)
BlocksPartition == phase = "sort" =>
    /\ \A k \in DOMAIN blocks : blocks[k].s # {}
    /\ \A j, k \in DOMAIN blocks : j # k => blocks[j].s \cap blocks[k].s = {}
    /\ UNION {blocks[k].s : k \in DOMAIN blocks} = U
\* C11: under coherent preferences every schedule ends in THE coherent ranking
PivotIndependent == Terminal /\ Coherent(C, U) => Result \in CoherentRankings(C, U)
CoherentDefsAgree == phase = "sort" => CoherentRankings(C, U) = CoherentRankingsEnum(C, U)
\* progress: every step strictly decreases the number of elements in pending blocks
Pending == LET f(k) == IF blocks[k].fin THEN 0 ELSE Cardinality(blocks[k].s) IN MapThenSumSet(f, DOMAIN blocks)
Progress == [][phase = "sort" /\ phase' = "sort" => Pending' < Pending]_vars
\* k copies of one bucket order, breaking a tie and creating a tie both cost something: returned unchanged
IdenticalRankings == Terminal /\ (\A j \in DOMAIN ds : ds[j] = ds[1]) /\ Dom(ds[1]) = U /\ B[3] > 0 /\ T[1] > 0
                        => Result = ds[1]
=============================================================================
