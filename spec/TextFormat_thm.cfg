CONSTANTS N = 3 What = "theorems" MaxLen = 0
