SPECIFICATION Spec
INVARIANT LoopIsProportional
CHECK_DEADLOCK FALSE
