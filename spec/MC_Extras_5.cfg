CONSTANTS N = 5
