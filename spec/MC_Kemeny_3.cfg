SPECIFICATION Spec
CONSTANTS
  N = 3
  M = 2
  Schemes <- SchemesQuick
INVARIANT ScoreLinear
INVARIANT ScoreTable
INVARIANT Mirror
INVARIANT DPisOpt
INVARIANT NoTiePruningSound
CHECK_DEADLOCK FALSE
