---------------------------- MODULE ConsistWalk ----------------------------
(***************************************************************************)
(* OrderedPartition.consistent_with as a state machine (ordered_partition  *)
(* .py): the walk over the groups of the partition and the buckets of the  *)
(* first consensus ranking, transcribed loop by loop.                      *)
(*                                                                         *)
(*   Pick(P, c)  any ordered partition P of a subset of 1..N and any       *)
(*               bucket order c of a subset of 1..N (same elements or not) *)
(*   EnterGroup  outer loop test true: nb_elements_to_see := size of the   *)
(*               current group                                             *)
(*   Bucket      one iteration of the inner loop: the for loop over the    *)
(*               current bucket, next bucket, next group when the group    *)
(*               has been seen entirely                                    *)
(*   LeaveInner  inner loop test false, back to the outer loop             *)
(*   Return      outer loop test false                                     *)
(*                                                                         *)
(* Checked (MC_ConsistWalk.cfg): the walk returns, and it returns TRUE     *)
(* exactly for the relation of C07 (same elements, every element of an     *)
(* earlier group strictly before every element of a later group); the      *)
(* number of steps is bounded by groups + buckets.                         *)
(* Named, not idealised: with a consensus whose first ranking has fewer    *)
(* elements than the consensus announces (nb_elements is the union over    *)
(* ALL its rankings) the outer loop has no exit: state Spinning.  Such     *)
(* objects are outside C07 (consensus rankings of one object share their   *)
(* elements); MalformedCanSpin records that the model reproduces the hang. *)
(***************************************************************************)
EXTENDS Partition

CONSTANTS N, Malformed        \* Malformed = TRUE: the announced number of elements may differ from the first ranking's

VARIABLES P, c, announced, flag, g, b, left, pc, steps
vars == <<P, c, announced, flag, g, b, left, pc, steps>>

Subsets == (SUBSET (1..N)) \ {{}}
Parts == UNION {AllBucketOrders(S) : S \in Subsets}      \* an ordered partition of S is a bucket order of S

NbP == Cardinality(Dom(P))

Init == /\ P = <<>> /\ c = <<>> /\ announced = 0 /\ flag = TRUE /\ g = 0 /\ b = 0 /\ left = 0 /\ pc = "pick" /\ steps = 0
Pick == /\ pc = "pick"
        /\ \E p \in Parts, q \in Parts :
              /\ P' = p /\ c' = q
              /\ \E a \in (IF Malformed THEN NbElements(q)..N ELSE {NbElements(q)}) :
                    /\ announced' = a
                    /\ flag' = (a = Cardinality(Dom(p)))
        /\ g' = 0 /\ b' = 0 /\ left' = 0 /\ pc' = "outer" /\ steps' = 0
\* while flag and id_partition < len(self._partition)
EnterGroup == /\ pc = "outer" /\ flag /\ g < Len(P)
              /\ left' = Cardinality(P[g + 1]) /\ pc' = "inner" /\ steps' = steps + 1
              /\ UNCHANGED <<P, c, announced, flag, g, b>>
Return     == /\ pc = "outer" /\ ~(flag /\ g < Len(P)) /\ pc' = "done" /\ UNCHANGED <<P, c, announced, flag, g, b, left, steps>>
\* while flag and id_bucket_cons < len(cons) and nb_elements_to_see > 0  -- the group examined is the one of EnterGroup
\* even after id_partition has been incremented (the inner loop then exits at once: nb_elements_to_see = 0)
Bucket == /\ pc = "inner" /\ flag /\ b < Len(c) /\ left > 0
          /\ LET grp  == P[g + 1]
                 bk   == c[b + 1]
                 seen == Cardinality(bk \cap grp)
             IN /\ flag' = (bk \subseteq grp)
                /\ left' = left - seen
                /\ g' = IF left - seen = 0 THEN g + 1 ELSE g
          /\ b' = b + 1 /\ steps' = steps + 1 /\ UNCHANGED <<P, c, announced, pc>>
LeaveInner == /\ pc = "inner" /\ ~(flag /\ b < Len(c) /\ left > 0) /\ pc' = "outer"
              /\ UNCHANGED <<P, c, announced, flag, g, b, left, steps>>
Next == Pick \/ EnterGroup \/ Return \/ Bucket \/ LeaveInner
Spec == Init /\ [][Next]_vars
FairSpec == Spec /\ WF_vars(EnterGroup \/ Return \/ Bucket \/ LeaveInner)

\* the relation of C07
Consistent == Dom(P) = Dom(c) /\ Respects(P, c)
WellFormed == announced = NbElements(c)

ReturnsTheRelation == pc = "done" /\ WellFormed => (flag = Consistent)
\* an iteration of the outer loop that changes nothing: the loop has no exit
Spinning == pc = "outer" /\ flag /\ g < Len(P) /\ b >= Len(c) /\ steps > 0
NeverSpins == WellFormed => ~Spinning
Bounded == steps <= Len(P) + Len(c) + 1 \/ Spinning
LeftNeverNegative == left >= 0
Terminates == [](pc = "outer" /\ WellFormed => <>(pc = "done"))
\* expected to be VIOLATED with Malformed = TRUE (MC_ConsistWalk_malformed.cfg): the hang is reachable
MalformedNeverSpins == ~Spinning
=============================================================================
