SPECIFICATION Spec
CONSTANTS
  N = 3
  M = 3
  B <- B_thr
  T <- T_thr
  Unit = 1024
INVARIANT DenseInv
INVARIANT Bookkeeping
INVARIANT DoneIsLocalOpt
INVARIANT CleanPrefix
INVARIANT NeverWorse
PROPERTY Decrease
CHECK_DEADLOCK FALSE
