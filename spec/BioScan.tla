------------------------------ MODULE BioScan ------------------------------
(***************************************************************************)
(* _improve_one_ranking as a state machine: the local search BioConsert    *)
(* applies to each departure ranking, with the scan order of the code      *)
(* (LocalSearch.tla leaves the choice of the improving move free; this     *)
(* machine is the behaviour of it that the code takes).                    *)
(*                                                                         *)
(*   build   a dataset of at most M partial rankings over 1..N             *)
(*   Start   any bucket order of the universe as departure ranking         *)
(*   Visit   one iteration of the element loop (BioScanDefs!StepElem)       *)
(*   Sweep   end of a sweep: again if something moved, else done           *)
(*                                                                         *)
(* Checked: the vector stays dense and max_id_bucket is its maximum;       *)
(* delta_dist is the score difference with the departure (C04, local       *)
(* search bookkeeping); every move gains more than the threshold           *)
(* (termination); the final ranking is a local optimum (C08).              *)
(***************************************************************************)
EXTENDS BioScanDefs, Scheme

CONSTANTS N, M, B, T, Unit

VARIABLES ds, phase, v, idx, mx, dirty, delta, start
vars == <<ds, phase, v, idx, mx, dirty, delta, start>>

PR == PartialRankings(1..N)
U  == Universe(ds)
C  == Cost(ds, B, T, U)
Thr == Unit \div 1000
Elems == SetToSortSeq(U, LAMBDA a, b : a < b)
VecOf(c) == [x \in U |-> BIdx(c, x) - 1]
Sc(w) == ScoreK(w, C, U)

Init == ds = <<>> /\ phase = "build" /\ v = <<>> /\ idx = 0 /\ mx = 0 /\ dirty = FALSE /\ delta = 0 /\ start = <<>>
AddRanking(r) == phase = "build" /\ Len(ds) < M /\ ds' = Append(ds, r)
                 /\ UNCHANGED <<phase, v, idx, mx, dirty, delta, start>>
Start(c) == /\ phase = "build" /\ Len(ds) >= 1 /\ U # {}
            /\ phase' = "scan" /\ v' = VecOf(c) /\ start' = VecOf(c) /\ idx' = 1 /\ mx' = Len(c) - 1
            /\ dirty' = FALSE /\ delta' = 0 /\ UNCHANGED ds
Visit == /\ phase = "scan" /\ idx <= Len(Elems)
         /\ LET s == StepElem(v, Elems[idx], C, mx, Thr) IN
            /\ v' = s.v /\ mx' = s.mx /\ delta' = delta + s.d
            /\ dirty' = (dirty \/ s.kind # "none")
         /\ idx' = idx + 1 /\ UNCHANGED <<ds, phase, start>>
Sweep == /\ phase = "scan" /\ idx > Len(Elems)
         /\ IF dirty THEN idx' = 1 /\ dirty' = FALSE /\ phase' = phase
                     ELSE phase' = "done" /\ UNCHANGED <<idx, dirty>>
         /\ UNCHANGED <<ds, v, mx, delta, start>>
Next == \/ \E r \in PR : AddRanking(r)
        \/ \E c \in AllBucketOrders(U) : Start(c)
        \/ Visit \/ Sweep
Spec == Init /\ [][Next]_vars
FairSpec == Spec /\ WF_vars(Visit \/ Sweep)

B_uni5 == <<0,4,2,0,4,2>>
T_uni5 == <<2,2,0,2,2,0>>
B_uni1 == <<0,4,4,0,4,4>>
T_uni1 == <<4,4,0,4,4,0>>
B_ind1 == <<0,4,4,0,0,0>>
T_ind1 == <<4,4,0,0,0,0>>
B_pse5 == <<0,4,2,0,4,0>>
T_pse5 == <<2,2,0,2,2,0>>
B_ext == <<0,4,0,0,0,0>>
T_ext == <<4,4,0,4,4,4>>
B_odd == <<0,3,1,1,2,2>>
T_odd == <<2,2,0,1,1,3>>
\* penalties of one and two units of 1/1024: a gain of one unit is below the threshold of 0.001, of two above
B_thr == <<0,2,1,0,2,1>>
T_thr == <<1,1,0,1,1,0>>

ASSUME Valid(B, T)

Running == phase \in {"scan", "done"}
DenseInv == Running => DenseV(v) /\ mx = MaxB(v)
Bookkeeping == Running => delta = Sc(KeyV(v)) - Sc(KeyV(start))
DoneIsLocalOpt == phase = "done" => LocalOpt(OrderOf(v), C, U, Unit)
\* a sweep that is not dirty so far has left every element met so far without any improving move
CleanPrefix == phase = "scan" /\ ~dirty =>
    \A j \in 1..(idx - 1) : StepElem(v, Elems[j], C, mx, Thr).kind = "none"
\* every move gains more than the threshold; nothing else changes the vector
Decrease == [][phase = "scan" /\ phase' = "scan" /\ v' # v => Improves(Sc(KeyV(v)), Sc(KeyV(v')), Unit)]_vars
Terminates == [](phase = "scan" => <>(phase = "done"))
\* the score of the result never exceeds the score of the departure
NeverWorse == Running => Sc(KeyV(v)) <= Sc(KeyV(start))
=============================================================================
