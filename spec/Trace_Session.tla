---------------------------- MODULE Trace_Session ----------------------------
(***************************************************************************)
(* Trace validation for C15.  One record = one history of API calls        *)
(* (enumerated by TLC from Session.tla) replayed on SHARED Dataset and     *)
(* ScoringScheme objects:                                                  *)
(*   snaps[k]   abstract + deep structural snapshot of both inputs after   *)
(*              call k (snaps[1] is taken before the first call)           *)
(*   shared[k]  result of call k on the shared objects                     *)
(*   fresh[k]   result of the same call on fresh copies of the inputs      *)
(* The session must be a behaviour of Session.tla: inputs unchanged by     *)
(* every call; deterministic calls return the same result as on fresh      *)
(* copies and as an earlier identical call of the session (memo).          *)
(***************************************************************************)
EXTENDS Naturals, Sequences, FiniteSets, TLC, Json, IOUtils

VARIABLES i, verdict
Trace == ndJsonDeserialize(IOEnv.TRACE_FILE)
Random == {"kwiksort"}
Mutators == {"mut_remove_element", "mut_remove_rate"}

Verdict(rec) ==
    LET n == Len(rec.calls) IN
    \* a history that does not come back (killed after 5 minutes; histories take milliseconds): the runs on the shared
    \* objects do not give the results of runs on fresh copies
    IF rec.out = "hang" THEN <<"viol", "C15:history-does-not-return">>
    ELSE IF rec.out # "ok" THEN <<"skip", rec.out>>
    ELSE IF Len(rec.snaps) # n + 1 \/ Len(rec.shared) # n \/ Len(rec.fresh) # n THEN <<"skip", "malformed-record">>
    \* every call but a mutator leaves the inputs as they were before it (snaps[k] is taken before call k)
    ELSE IF \E k \in 1..n : rec.calls[k] \notin Mutators /\ rec.snaps[k + 1].abs # rec.snaps[k].abs
         THEN <<"viol", "C15:input-modified">>
    ELSE IF \E k \in 1..n : rec.calls[k] \notin Mutators /\ rec.snaps[k + 1].deep # rec.snaps[k].deep
         THEN <<"viol", "C15:input-internals-modified">>
    \* fresh[k]: the same call on fresh copies of the inputs AS THEY ARE NOW (rebuilt from the current rankings)
    ELSE IF \E k \in 1..n : rec.calls[k] \notin Random \cup Mutators /\ rec.shared[k] # rec.fresh[k]
         THEN <<"viol", "C15:shared-differs-from-fresh">>
    ELSE IF \E j, k \in 1..n : j < k /\ rec.calls[j] = rec.calls[k] /\ rec.calls[k] \notin Random \cup Mutators
                               /\ (\A l \in j..k : rec.calls[l] \notin Mutators)
                               /\ rec.shared[j] # rec.shared[k] THEN <<"viol", "C15:not-repeatable">>
    ELSE <<"ok", "session">>

Init == i = 0 /\ verdict = <<"init", "">>
Pick == i = 0 /\ \E j \in DOMAIN Trace : i' = j /\ verdict' = <<"pending", "">>
Eval == /\ i > 0 /\ verdict[1] = "pending" /\ i' = i
        /\ verdict' = Verdict(Trace[i])
        /\ PrintT(<<"V", Trace[i].id, verdict'[1], verdict'[2]>>)
Next == Pick \/ Eval
Spec == Init /\ [][Next]_<<i, verdict>>
AllOk == verdict[1] # "viol"
=============================================================================
