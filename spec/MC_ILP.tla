------------------------------- MODULE MC_ILP -------------------------------
(***************************************************************************)
(* The integer linear program of the exact algorithm, as a statement about *)
(* ALL datasets over N elements at once.                                   *)
(*                                                                         *)
(* Variables: x[i,j] (i before j, i # j) and t[i,j] (i tied with j, i<j).  *)
(* The "binary" rows  x[i,j] + x[j,i] + t[i,j] = 1  are substituted: an    *)
(* assignment is a function from unordered pairs to {before, after, tied}. *)
(* Theorems (checked by TLC by enumerating the 3^(N(N-1)/2) assignments):  *)
(*   FeasibleIsBucketOrders  the assignments satisfying the three families *)
(*        of transitivity rows are exactly the encodings of bucket orders  *)
(*   DecodeInverts           counting defeats decodes an encoding          *)
(*   ObjectiveIsScore        the objective of an encoding is the score     *)
(*        read off the cost table (for a generic mirror-consistent table)  *)
(* The rows the CODE builds are captured by the harness and checked        *)
(* against the same statement in Trace_ILP.                                *)
(***************************************************************************)
EXTENDS Kemeny

CONSTANT N
E == 1..N
P == Pairs(E)
Rel == [P -> {1, 2, 3}]        \* for <<i,j>>, i<j :  1 = i before j, 2 = i after j, 3 = tied

X(rel, i, j)  == IF i < j THEN (IF rel[<<i, j>>] = 1 THEN 1 ELSE 0) ELSE (IF rel[<<j, i>>] = 2 THEN 1 ELSE 0)
Tt(rel, i, j) == LET p == IF i < j THEN <<i, j>> ELSE <<j, i>> IN IF rel[p] = 3 THEN 1 ELSE 0

Feasible(rel) == \A i, j, k \in E : (i # j /\ k # i /\ k # j) =>
      /\ X(rel, i, j) + X(rel, j, k) + Tt(rel, j, k) - X(rel, i, k) <= 1
      /\ X(rel, i, j) + Tt(rel, i, j) + X(rel, j, k) - X(rel, i, k) <= 1
      /\ 2 * Tt(rel, i, j) + 2 * Tt(rel, j, k) - Tt(rel, i, k) <= 3

Enc(c) == [p \in P |-> LET a == BIdx(c, p[1])  b == BIdx(c, p[2])
                       IN IF a < b THEN 1 ELSE IF a > b THEN 2 ELSE 3]

Defeats(rel, j) == LET f(i) == X(rel, i, j) IN MapThenSumSet(f, E \ {j})
Dec(rel) == FromKey([j \in E |-> Defeats(rel, j)])

Cands == AllBucketOrders(E)

\* a generic mirror-consistent cost table with pairwise distinct entries
G == [p \in E \X E |-> IF p[1] < p[2] THEN <<100 * p[1] + 10 * p[2] + 1, 100 * p[1] + 10 * p[2] + 2, 1000 + 100 * p[1] + 10 * p[2]>>
                       ELSE IF p[1] > p[2] THEN <<100 * p[2] + 10 * p[1] + 2, 100 * p[2] + 10 * p[1] + 1, 1000 + 100 * p[2] + 10 * p[1]>>
                       ELSE <<0, 0, 0>>]
Objective(rel, C) ==
    LET fx(p) == X(rel, p[1], p[2]) * C[p][1]
        ft(p) == Tt(rel, p[1], p[2]) * C[p][3]
    IN MapThenSumSet(fx, {p \in E \X E : p[1] # p[2]}) + MapThenSumSet(ft, P)

FeasibleIsBucketOrders == {r \in Rel : Feasible(r)} = {Enc(c) : c \in Cands}
DecodeInverts          == \A c \in Cands : Dec(Enc(c)) = c
ObjectiveIsScore       == \A c \in Cands : Objective(Enc(c), G) = ScoreFromCost(c, G, E)

ASSUME FeasibleIsBucketOrders
ASSUME DecodeInverts
ASSUME ObjectiveIsScore
ASSUME PrintT(<<"ILP", N, Cardinality(Rel), Cardinality(Cands)>>)
=============================================================================
