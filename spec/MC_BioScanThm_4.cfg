CONSTANTS NMax = 4
