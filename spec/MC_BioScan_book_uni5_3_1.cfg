SPECIFICATION Spec
CONSTANTS
  N = 3
  M = 1
  B <- B_uni5
  T <- T_uni5
  Unit = 4
INVARIANT DenseInv
INVARIANT Bookkeeping
INVARIANT NeverWorse
INVARIANT DoneIsLocalOpt
PROPERTY Decrease
CHECK_DEADLOCK FALSE
