SPECIFICATION Spec
CONSTANTS
  N = 3
  M = 3
  B <- B_uni5
  T <- T_uni5
INVARIANT BlocksPartition
INVARIANT PivotIndependent
INVARIANT CoherentDefsAgree
INVARIANT IdenticalRankings
PROPERTY Progress
CHECK_DEADLOCK FALSE
