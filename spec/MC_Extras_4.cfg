CONSTANTS N = 4
