---------------------------- MODULE Trace_Score ----------------------------
(***************************************************************************)
(* Trace validation for C01.  One record per call of the library's Kemeny  *)
(* score on (dataset D, candidate c), observed under a list of schemes:    *)
(*   res   "score" | "refused" (the dedicated exception) | "error:<cls>"   *)
(*   vals  << <<value in units, exact?>> ... >>  one per scheme of Aux     *)
(*   s1,s2 the library's internal pair counters when observable (hascnt)   *)
(* TLC recomputes the score from the definition (Kemeny!Counts, linear in  *)
(* the penalties -- theorem ScoreLinear is model-checked in MC_Kemeny) and *)
(* gives one total verdict per record.                                     *)
(***************************************************************************)
EXTENDS KemenyAlgo, Scheme, Json, IOUtils

VARIABLES i, verdict

Trace == ndJsonDeserialize(IOEnv.TRACE_FILE)
Aux   == JsonDeserialize(IOEnv.AUX_FILE)
Sch   == Aux.schemes          \* << <<B, T, unit>> ... >> ; vals[k] = <<value in units of scheme k, exact?>>

ScoreLin(cnt, B, T) ==
    LET fb(s) == cnt[1][s] * B[s]  ft(s) == cnt[2][s] * T[s]
    IN MapThenSumSet(fb, 1..6) + MapThenSumSet(ft, 1..6)

\* identifications justified by the validity constraints: s1[1] is multiplied by B[1] = 0,
\* s2[1]+s2[2] and s2[4]+s2[5] are what T[1]=T[2], T[4]=T[5] can see, s2[3] by T[3] = 0
CountersAgree(cnt, s1, s2) ==
    /\ \A s \in 2..6 : s1[s] = cnt[1][s]
    /\ s2[1] + s2[2] = cnt[2][1]
    /\ s2[4] + s2[5] = cnt[2][4]
    /\ s2[6] = cnt[2][6]

Verdict(rec) ==
    LET D == DsOfJson(rec.D)
        c == RkOfJson(rec.c)
    IN IF ~(IsDataset(D) /\ IsRanking(c) /\ NoDupJson(rec.c)) THEN <<"skip", "malformed-input">>
       ELSE IF Refused(c, D)
            THEN (IF rec.res = "refused" THEN <<"ok", "refused">> ELSE <<"viol", "C01:refusal">>)
       ELSE IF rec.res # "score" THEN <<"viol", "C01:accept">>
       ELSE LET cnt == Counts(c, D) IN
            IF \E k \in DOMAIN Sch : ~Valid(Sch[k][1], Sch[k][2]) THEN <<"skip", "invalid-scheme">>
            ELSE IF Len(rec.vals) # Len(Sch) THEN <<"viol", "C01:accept">>
            ELSE IF \E k \in DOMAIN Sch :
                  /\ rec.vals[k][2] # 2          \* 2 = the value exceeds TLC's 32-bit integers: scheme not compared
                  /\ \/ rec.vals[k][2] # 1
                     \/ rec.vals[k][1] # ScoreLin(cnt, Sch[k][1], Sch[k][2])
                 THEN <<"viol", "C01:score">>
            ELSE IF rec.hascnt = 1 /\ ~CountersAgree(cnt, rec.s1, rec.s2) THEN <<"drift", "counters">>
            \* all twelve raw counters against the transcription of the O(n log n) algorithm (KemenyAlgo.tla)
            \* (on one record in four of the exhaustive small grid, on every larger case)
            ELSE IF rec.hascnt = 1 /\ (rec.id % 4 = 0 \/ Cardinality(Dom(c)) >= 5) /\ <<rec.s1, rec.s2>> # CostByDataset(c, D)
                 THEN <<"drift", "counters-differ-from-the-transcribed-algorithm">>
            ELSE <<"ok", "score">>

Init == i = 0 /\ verdict = <<"init", "">>
Pick == i = 0 /\ \E j \in DOMAIN Trace : i' = j /\ verdict' = <<"pending", "">>
Eval == /\ i > 0 /\ verdict[1] = "pending" /\ i' = i
        /\ verdict' = Verdict(Trace[i])
        /\ PrintT(<<"V", Trace[i].id, verdict'[1], verdict'[2]>>)
Next == Pick \/ Eval
Spec == Init /\ [][Next]_<<i, verdict>>

AllOk == verdict[1] # "viol"
=============================================================================
