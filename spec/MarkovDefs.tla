----------------------------- MODULE MarkovDefs -----------------------------
(***************************************************************************)
(* The moves of the random ranking generator as functions on bucket-id     *)
(* vectors (sequences; element e of the code is index e+1; -1 = unranked), *)
(* transcribed from Ranking.__add_left ... __put_element_first and the two *)
(* step dispatchers.  Used by the state machine MarkovGen and by the trace *)
(* specification Trace_Markov.                                             *)
(***************************************************************************)
EXTENDS Naturals, Integers, Sequences, FiniteSets, FiniteSetsExt, TLC

\* @type: (Int -> Int, Int) => Int;
Size(w, b)  == Cardinality({x \in DOMAIN w : w[x] = b})
\* @type: (Int -> Int) => Set(Int);
Used(w)     == {w[x] : x \in DOMAIN w} \ {-1}
\* @type: (Int -> Int) => Int;
MaxId(w)    == IF Used(w) = {} THEN -1 ELSE Max(Used(w))
\* @type: (Int -> Int) => Bool;
Dense(w)    == Used(w) = 0..(Cardinality(Used(w)) - 1)
\* @type: (Int -> Int, Int) => Bool;
Ranked(w, e) == w[e] >= 0
\* the same without a computed range (for the symbolic checker): every used id but 0 has its predecessor used
\* @type: (Int -> Int) => Bool;
DenseAlt(w) == \A b \in Used(w) : b >= 0 /\ (b = 0 \/ (b - 1) \in Used(w))

\* @type: (Int -> Int, Int) => (Int -> Int);
AddLeftF(w, e) == LET b == w[e] IN
    IF Size(w, b) > 1 THEN [[x \in DOMAIN w |-> IF w[x] >= b THEN w[x] + 1 ELSE w[x]] EXCEPT ![e] = b] ELSE w
\* @type: (Int -> Int, Int) => (Int -> Int);
AddRightF(w, e) == LET b == w[e] IN
    IF Size(w, b) > 2 THEN [[x \in DOMAIN w |-> IF w[x] > b THEN w[x] + 1 ELSE w[x]] EXCEPT ![e] = b + 1] ELSE w
\* @type: (Int -> Int, Int) => (Int -> Int);
ChangeLeftF(w, e) == LET b == w[e] IN
    IF b # 0 THEN LET u == IF Size(w, b) = 1 THEN [x \in DOMAIN w |-> IF w[x] > b THEN w[x] - 1 ELSE w[x]] ELSE w
                  IN [u EXCEPT ![e] = u[e] - 1]
    ELSE w
\* @type: (Int -> Int, Int) => (Int -> Int);
ChangeRightF(w, e) == LET b == w[e] IN
    IF b # MaxId(w) /\ (Size(w, b) > 1 \/ Size(w, b + 1) > 1)
    THEN LET u == [w EXCEPT ![e] = b + 1]
         IN IF Size(w, b) = 1 THEN [x \in DOMAIN w |-> IF u[x] > b THEN u[x] - 1 ELSE u[x]] ELSE u
    ELSE w
\* @type: (Int -> Int, Int) => (Int -> Int);
RemoveF(w, e) == LET b == w[e] IN
    [(IF Size(w, b) = 1 THEN [x \in DOMAIN w |-> IF w[x] > b THEN w[x] - 1 ELSE w[x]] ELSE w) EXCEPT ![e] = -1]
\* @type: (Int -> Int, Int) => (Int -> Int);
PutFirstF(w, e) == [[x \in DOMAIN w |-> IF w[x] >= 0 THEN w[x] + 1 ELSE w[x]] EXCEPT ![e] = 0]

\* one step of the chain: element e, random draw alea (1..4 complete, 1..5 incomplete)
\* @type: (Int -> Int, Int, Int, Bool) => (Int -> Int);
StepF(w, e, alea, complete) ==
    IF ~Ranked(w, e) THEN (IF ~complete /\ alea = 5 THEN PutFirstF(w, e) ELSE w)
    ELSE CASE alea = 1 -> AddLeftF(w, e)
           [] alea = 2 -> AddRightF(w, e)
           [] alea = 3 -> ChangeLeftF(w, e)
           [] alea = 4 -> ChangeRightF(w, e)
           [] alea = 5 -> IF complete THEN w ELSE RemoveF(w, e)

=============================================================================
