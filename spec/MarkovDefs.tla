----------------------------- MODULE MarkovDefs -----------------------------
(***************************************************************************)
(* The moves of the random ranking generator as functions on bucket-id     *)
(* vectors (sequences; element e of the code is index e+1; -1 = unranked), *)
(* transcribed from Ranking.__add_left ... __put_element_first and the two *)
(* step dispatchers.  Used by the state machine MarkovGen and by the trace *)
(* specification Trace_Markov.                                             *)
(***************************************************************************)
EXTENDS Naturals, Integers, Sequences, FiniteSets, FiniteSetsExt, TLC

Size(w, b)  == Cardinality({x \in DOMAIN w : w[x] = b})
Used(w)     == {w[x] : x \in DOMAIN w} \ {-1}
MaxId(w)    == IF Used(w) = {} THEN -1 ELSE Max(Used(w))
Dense(w)    == Used(w) = 0..(Cardinality(Used(w)) - 1)
Ranked(w, e) == w[e] >= 0

AddLeftF(w, e) == LET b == w[e] IN
    IF Size(w, b) > 1 THEN [[x \in DOMAIN w |-> IF w[x] >= b THEN w[x] + 1 ELSE w[x]] EXCEPT ![e] = b] ELSE w
AddRightF(w, e) == LET b == w[e] IN
    IF Size(w, b) > 2 THEN [[x \in DOMAIN w |-> IF w[x] > b THEN w[x] + 1 ELSE w[x]] EXCEPT ![e] = b + 1] ELSE w
ChangeLeftF(w, e) == LET b == w[e] IN
    IF b # 0 THEN LET u == IF Size(w, b) = 1 THEN [x \in DOMAIN w |-> IF w[x] > b THEN w[x] - 1 ELSE w[x]] ELSE w
                  IN [u EXCEPT ![e] = u[e] - 1]
    ELSE w
ChangeRightF(w, e) == LET b == w[e] IN
    IF b # MaxId(w) /\ (Size(w, b) > 1 \/ Size(w, b + 1) > 1)
    THEN LET u == [w EXCEPT ![e] = b + 1]
         IN IF Size(w, b) = 1 THEN [x \in DOMAIN w |-> IF u[x] > b THEN u[x] - 1 ELSE u[x]] ELSE u
    ELSE w
RemoveF(w, e) == LET b == w[e] IN
    [(IF Size(w, b) = 1 THEN [x \in DOMAIN w |-> IF w[x] > b THEN w[x] - 1 ELSE w[x]] ELSE w) EXCEPT ![e] = -1]
PutFirstF(w, e) == [[x \in DOMAIN w |-> IF w[x] >= 0 THEN w[x] + 1 ELSE w[x]] EXCEPT ![e] = 0]

\* one step of the chain: element e, random draw alea (1..4 complete, 1..5 incomplete)
StepF(w, e, alea, complete) ==
    IF ~Ranked(w, e) THEN (IF ~complete /\ alea = 5 THEN PutFirstF(w, e) ELSE w)
    ELSE CASE alea = 1 -> AddLeftF(w, e)
           [] alea = 2 -> AddRightF(w, e)
           [] alea = 3 -> ChangeLeftF(w, e)
           [] alea = 4 -> ChangeRightF(w, e)
           [] alea = 5 -> IF complete THEN w ELSE RemoveF(w, e)

=============================================================================
