SPECIFICATION Spec
CONSTANTS
  N = 4
  M = 1
  B <- B_odd
  T <- T_odd
  Unit = 4
INVARIANT DenseInv
INVARIANT Bookkeeping
INVARIANT DoneIsLocalOpt
INVARIANT CleanPrefix
INVARIANT NeverWorse
PROPERTY Decrease
CHECK_DEADLOCK FALSE
