CONSTANTS MaxLen = 5 NR = 4
