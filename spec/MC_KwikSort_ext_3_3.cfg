SPECIFICATION Spec
CONSTANTS
  N = 3
  M = 3
  B <- B_ext
  T <- T_ext
INVARIANT BlocksPartition
INVARIANT PivotIndependent
INVARIANT CoherentDefsAgree
INVARIANT IdenticalRankings
PROPERTY Progress
CHECK_DEADLOCK FALSE
