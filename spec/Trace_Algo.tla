----------------------------- MODULE Trace_Algo -----------------------------
(***************************************************************************)
(* Trace validation of algorithm runs (harness/algorun.py).  One record =  *)
(* one call  alg.compute_consensus_rankings(dataset, scheme, flag)  with   *)
(* everything the consensus object reported.  Aux.prop selects the         *)
(* property whose clauses give the verdict; every expected value is        *)
(* computed here from the definitions (Kemeny.tla, Positional.tla,         *)
(* LocalSearch.tla), never by the harness.                                 *)
(***************************************************************************)
EXTENDS Kemeny, Scheme, Positional, BioFull, Partition, PickScanDefs, Json, IOUtils

VARIABLES i, verdict

Trace == ndJsonDeserialize(IOEnv.TRACE_FILE)
Aux   == JsonDeserialize(IOEnv.AUX_FILE)
Prop  == Aux.prop



IsBio(cfg)     == cfg \in {"BioConsert", "Bio[]", "Bio()", "BioCo", "Bio[Borda]", "Bio[Copeland,KwikSort]", "Bio[PickAPerm]",
                           "Bio[PickAPerm,Copeland]", "Bio[Borda,Copeland,KwikSort]", "Bio[Borda,BordaBid]",
                           "Bio[BioCo]", "Bio{Copeland}", "BioValues[Borda]"}
\* an explicitly empty list (or tuple) of starting algorithms is the default configuration
HasStarters(cfg) == IsBio(cfg) /\ cfg \notin {"BioConsert", "Bio[]", "Bio()"}
IsExact(cfg)   == cfg \in {"ExactPulp", "Exact(opt)", "Exact(noopt)", "ExactCplex(opt)", "ExactCplex(noopt)",
                           "ExactOptim1"}
IsSelector(cfg) == cfg \in {"Exact(opt)", "Exact(noopt)"}
IsParCons(cfg) == cfg \in {"ParCons", "ParCons(b0,BioConsert)", "ParCons(b1,KwikSort)", "ParCons(b2,Borda)",
                           "ParCons(b3,BioConsert)",
                           "ParCons(b0,BioCo)", "ParCons(b0,ParCons(b0,Borda))", "ParCons(b80,rec)",
                           "ParCons(b0,Bio[])"}
\* configurations that the property C14 says refuse incomplete data exactly when not relevant
Refusing(cfg)  == cfg \in {"Borda", "BordaBid", "PickAPerm", "BioCo", "Bio[Borda]", "Bio[PickAPerm]", "Bio[Borda,BordaBid]",
                           "Bio[PickAPerm,Copeland]", "Bio[Borda,Copeland,KwikSort]"}

Verdict(rec) ==
    LET D    == DsOfJson(rec.D)
        U    == Universe(D)
        B    == rec.sch[1]
        T    == rec.sch[2]
        Unit == rec.sch[3]
        C    == Cost(D, B, T, U)
        K    == [k \in DOMAIN rec.K |-> RkOfJson(rec.K[k])]
        Got  == rec.out = "consensus"
        Shape == /\ \A k \in DOMAIN rec.K : NoDupJson(rec.K[k]) /\ IsRanking(K[k])
        Over  == \A k \in DOMAIN K : Dom(K[k]) = U
        Count == Len(rec.K) >= 1 /\ (rec.flag = 1 => Len(rec.K) = 1)
        WF    == Got /\ Count /\ Shape /\ Over
        Sc(c) == ScoreFromCost(c, C, U)
        \* second limb of a two-limb scheme H*(B,T) + (B2,T2): scores are compared as pairs <<limb1, limb2>>
        Big  == rec.H > 0
        C2   == Cost(D, rec.sch2[1], rec.sch2[2], U)
        Sc2(c) == IF Big THEN ScoreFromCost(c, C2, U) ELSE 0
        LexLeq(a1, a2, b1, b2) == a1 < b1 \/ (a1 = b1 /\ a2 <= b2)
        n     == Cardinality(U)
        OptV  == IF n <= 5 THEN Opt(C, U) ELSE OptDP(C, U)
        \* beyond 8 elements the subset DP is out of reach for TLC: the optimum is bracketed.  UpperB = best score
        \* among the unified input rankings and the all-tied ranking (a returned ranking scoring more is certainly not
        \* optimal); LowerB = sum over pairs of the cheapest placement (a ranking reaching it is certainly optimal)
        BigN   == n > 8
        UpperB == Min({Sc(Unify(D[r], U)) : r \in DOMAIN D} \cup {Sc(AllTied(U))})
        LowerB == LET f(p) == Min3(C[p][1], C[p][2], C[p][3]) IN MapThenSumSet(f, Pairs(U))
        Complete == IsCompleteDS(D)
        \* ------------------------------------------------------------ C03
        \* a documented refusal ("refused:...") is not an accepted input; any other exception on a valid input is a
        \* failure to deliver the consensus (the stand-in's own limits and watchdog expiries are not verdicts)
        Crashed == rec.out \notin {"consensus", "timeout", "setup-failed", "error:CplexError"}
                   /\ rec.out \notin {"refused:ScoringSchemeNotHandledException",
                                      "refused:InompleteRankingsIncompatibleWithScoringSchemeException",
                                      "refused:IncompatibleArgumentsException"}
        V03 == IF Crashed THEN <<"viol", "C03:fails-instead-of-returning-a-consensus">>
               ELSE IF ~Got THEN <<"skip", rec.out>>
               ELSE IF ~Count THEN <<"viol", "C03:count">>
               ELSE IF ~Shape THEN <<"viol", "C03:buckets">>
               ELSE IF ~Over THEN <<"viol", "C03:universe">>
               ELSE <<"ok", "wellformed">>
        \* ------------------------------------------------------------ C04
        V04 == IF ~Got THEN <<"skip", rec.out>>
               ELSE IF ~WF THEN <<"skip", "malformed-consensus">>
               ELSE IF rec.rep[3] # "ok" THEN <<"viol", "C04:absent-or-negative">>
               ELSE IF rec.rep[2] # 1 \/ \E k \in DOMAIN K : Sc(K[k]) # rec.rep[1] THEN <<"viol", "C04:score">>
               ELSE IF Big /\ (rec.rep2[3] # "ok" \/ \E k \in DOMAIN K : Sc2(K[k]) # rec.rep2[1]) THEN <<"viol", "C04:score">>
               ELSE IF rec.rep0[3] = "ok" /\ (rec.rep0[1] # rec.rep[1] \/ rec.rep0[2] # 1)
                    THEN <<"viol", "C04:score">>
               ELSE <<"ok", "score">>
        \* ------------------------------------------------------------ C05
        V05 == IF ~IsExact(rec.cfg) THEN <<"skip", "not-exact">>
               ELSE IF ~Got THEN
                    (IF rec.env \in {"nocplex", "brokencplex"} /\ IsSelector(rec.cfg)
                     THEN <<"viol", "C05:selector-fails-without-cplex">>
                     ELSE <<"skip", rec.out>>)
               ELSE IF ~WF THEN <<"viol", "C05:malformed">>
               ELSE IF BigN THEN (IF \E k \in DOMAIN K : Sc(K[k]) > UpperB THEN <<"viol", "C05:not-optimal">>
                                  ELSE IF \A k \in DOMAIN K : Sc(K[k]) = LowerB THEN <<"ok", "optimal-by-lower-bound">>
                                  ELSE <<"skip", "optimum-not-computed-beyond-8-elements">>)
               ELSE IF \E k \in DOMAIN K : Sc(K[k]) # OptV THEN <<"viol", "C05:not-optimal">>
               ELSE IF rec.cfg = "ExactCplex(noopt)" /\ rec.flag = 0 /\ n <= 5
                       /\ Range(K) # OptSet(C, U) THEN <<"viol", "C05:all-optimal-set">>
               ELSE <<"ok", "optimal">>
        \* ------------------------------------------------------------ C06 (flag and ParCons run clauses)
        WP    == [g \in DOMAIN rec.wpart |-> ToSet(rec.wpart[g])]
        RespectsP(P, c) == \A g, h \in DOMAIN P : g < h => \A x \in P[g], y \in P[h] : BIdx(c, x) < BIdx(c, y)
        IsPartition(P) == /\ \A g \in DOMAIN P : P[g] # {}
                          /\ \A g, h \in DOMAIN P : g # h => P[g] \cap P[h] = {}
                          /\ UNION {P[g] : g \in DOMAIN P} = U
        V06 == IF ~Got THEN <<"skip", rec.out>>
               ELSE IF ~WF /\ IsParCons(rec.cfg) THEN <<"viol", "C06:consensus-respects-partition">>
               ELSE IF ~WF THEN <<"skip", "malformed-consensus">>
               ELSE IF BigN THEN (IF rec.opt = 1 /\ \E k \in DOMAIN K : Sc(K[k]) > UpperB
                                  THEN <<"viol", "C06:flag-not-optimal">>
                                  ELSE <<"skip", "optimum-not-computed-beyond-8-elements">>)
               ELSE IF rec.opt = 1 /\ \E k \in DOMAIN K : Sc(K[k]) # OptV THEN <<"viol", "C06:flag-not-optimal">>
               ELSE IF ~IsParCons(rec.cfg) THEN <<"ok", "flag">>
               ELSE IF ~IsPartition(WP) THEN <<"viol", "C06:weak-partition">>
               ELSE IF ~RespectsP(WP, K[1]) THEN <<"viol", "C06:consensus-respects-partition">>
               ELSE IF PartOpt(C, WP) # OptV THEN <<"viol", "C06:partition-admits-optimum">>
               ELSE IF Aux.auxlogged = 1 /\ ((rec.opt = 1) # (rec.auxcalls = 0))
                    THEN <<"viol", "C06:flag-iff-no-delegation">>
               \* beyond the property (parcons.py): a component whose pairs can all be tied at minimal cost is not handed
               \* to any algorithm, it becomes ONE bucket of the consensus; the reported groups are the strongly
               \* connected components of the graph of elements in a topological order
               ELSE IF \E g \in DOMAIN WP : CanBeAllTied(C, WP[g]) /\ ~\E b \in DOMAIN K[1] : K[1][b] = WP[g]
                    THEN <<"drift", "parcons-tieable-component-is-not-one-bucket">>
               ELSE IF n <= 6 /\ ~(\E o \in TopoOrders(C, U) : o = WP)
                    THEN <<"drift", "parcons-groups-are-not-the-components-in-topological-order">>
               ELSE <<"ok", "parcons">>
        \* ------------------------------------------------------------ C08
        V08 == IF ~IsBio(rec.cfg) THEN <<"skip", "not-bioconsert">>
               ELSE IF ~Got THEN <<"skip", rec.out>>
               ELSE IF ~WF THEN <<"skip", "malformed-consensus">>
               ELSE IF \E k \in DOMAIN K : ~LocalOpt(K[k], C, U, Unit) THEN <<"viol", "C08:local-optimum">>
               \* beyond the property: without starting algorithms the returned rankings are exactly those of the
               \* transcribed algorithm (BioFull.tla: departures, scan order, selection) - a difference is drift
               ELSE IF Aux.biofull = 1 /\ ~HasStarters(rec.cfg) /\ ~Big /\ n <= 6 /\ Len(D) <= 8 /\ IdsUsable(rec.ids, U)
                       /\ Range(K) # BioResult(D, U, C, rec.ids, rec.flag = 1, Unit \div 1000)
                    THEN <<"drift", "bioconsert-result-differs-from-the-transcribed-algorithm">>
               \* with starting algorithms: from the consensus rankings the starters were seen to return, in order
               ELSE IF Aux.biofull = 1 /\ HasStarters(rec.cfg) /\ ~Big /\ n <= 6 /\ IdsUsable(rec.ids, U)
                       /\ Len(rec.starts) >= 1
                       /\ (\A s \in DOMAIN rec.starts : NoDupJson(rec.starts[s]) /\ IsRanking(RkOfJson(rec.starts[s]))
                                                         /\ Dom(RkOfJson(rec.starts[s])) = U)
                       /\ Range(K) # BioResultFrom([s \in DOMAIN rec.starts |-> RkOfJson(rec.starts[s])], FALSE, U, C,
                                                   rec.ids, rec.flag = 1, Unit \div 1000)
                    THEN <<"drift", "bioconsert-result-differs-from-the-transcribed-algorithm-with-starters">>
               ELSE <<"ok", "localopt">>
        \* ------------------------------------------------------------ C09
        St    == IF HasStarters(rec.cfg) THEN {RkOfJson(rec.starts[s]) : s \in DOMAIN rec.starts}
                                              \cup {RkOfJson(rec.starts2[s]) : s \in DOMAIN rec.starts2}
                 ELSE {Unify(D[r], U) : r \in DOMAIN D} \cup {AllTied(U)}
        StOK  == \A s \in St : IsRanking(s) /\ Dom(s) = U
        V09 == IF ~IsBio(rec.cfg) THEN <<"skip", "not-bioconsert">>
               ELSE IF ~Got THEN <<"skip", rec.out>>
               ELSE IF ~WF THEN <<"skip", "malformed-consensus">>
               ELSE IF HasStarters(rec.cfg) /\ (St = {} \/ ~StOK) THEN <<"skip", "starters-not-observed">>
               ELSE IF \E k1, k2 \in DOMAIN K : Sc(K[k1]) # Sc(K[k2]) \/ Sc2(K[k1]) # Sc2(K[k2])
                    THEN <<"viol", "C09:same-score">>
               ELSE IF \E k \in DOMAIN K, s \in St : ~LexLeq(Sc(K[k]), Sc2(K[k]), Sc(s), Sc2(s))
                    THEN <<"viol", "C09:worse-than-start">>
               ELSE <<"ok", "noworse">>
        \* ------------------------------------------------------------ C10
        Cands == {Unify(D[r], U) : r \in DOMAIN D}
        MinC  == Min({Sc(c) : c \in Cands})
        ScanIdx == ScanResult([r \in DOMAIN D |-> Sc(Unify(D[r], U))], rec.flag = 1)
        ScanSeq == [j \in DOMAIN ScanIdx |-> Unify(D[ScanIdx[j]], U)]
        V10 == IF rec.cfg # "PickAPerm" THEN <<"skip", "not-pickaperm">>
               ELSE IF ~Complete /\ ~IsUnifying(B, T, 2)
                    THEN (IF rec.out \in {"refused:InompleteRankingsIncompatibleWithScoringSchemeException",
                                          "refused:ScoringSchemeNotHandledException"}
                          THEN <<"ok", "refused">> ELSE <<"viol", "C10:refusal">>)
               ELSE IF ~Got THEN <<"viol", "C10:accept">>
               ELSE IF ~(Count /\ Shape) THEN <<"viol", "C10:shape">>
               ELSE IF ~(Range(K) \subseteq Cands) THEN <<"viol", "C10:is-input-ranking">>
               ELSE IF \E k \in DOMAIN K : Sc(K[k]) # MinC THEN <<"viol", "C10:minimal">>
               ELSE IF rec.flag = 0 /\ ~({c \in Cands : Sc(c) = MinC} \subseteq Range(K))
                    THEN <<"viol", "C10:all-minimal">>
               \* beyond the property: the list is the one the scan machine (PickScan.tla) builds, in input order with
               \* the duplicates of a ranking kept - a difference is drift, not a violation
               ELSE IF ~Big /\ K # ScanSeq THEN <<"drift", "pickaperm-scan-order-or-multiplicity">>
               ELSE <<"ok", "best-inputs">>
        \* ------------------------------------------------------------ C12
        Fam   == BordaFamily(B, T)
        V12 == IF rec.cfg \notin {"Borda", "BordaBid"} THEN <<"skip", "not-borda">>
               ELSE IF ~Complete /\ Fam = "other"
                    THEN (IF rec.out = "refused:ScoringSchemeNotHandledException" THEN <<"ok", "refused">>
                          ELSE <<"viol", "C12:refusal">>)
               ELSE IF ~Got THEN <<"viol", "C12:accept">>
               ELSE IF ~(WF /\ Len(rec.K) = 1) THEN <<"viol", "C12:malformed">>
               ELSE IF ~BordaOK(K[1], D, U, Fam = "unifying", rec.cfg = "BordaBid") THEN <<"viol", "C12:order">>
               ELSE <<"ok", "borda">>
        \* ------------------------------------------------------------ C13
        V13 == IF rec.cfg # "Copeland" THEN <<"skip", "not-copeland">>
               ELSE IF ~Got THEN <<"viol", "C13:accept">>
               ELSE IF ~(WF /\ Len(rec.K) = 1) THEN <<"viol", "C13:malformed">>
               ELSE IF ~CopelandOrderOK(K[1], C, U) THEN <<"viol", "C13:order">>
               ELSE IF rec.cop.ok # 1 THEN <<"viol", "C13:features">>
               ELSE IF \E x \in U : rec.cop.s2[x] # Copeland2(C, U, x) THEN <<"viol", "C13:scores">>
               ELSE IF \E x \in U : rec.cop.ved[x] # CopelandVED(C, U, x) THEN <<"viol", "C13:counts">>
               ELSE IF \E x \in U : rec.cop.ved[x][1] + rec.cop.ved[x][2] + rec.cop.ved[x][3] # n - 1
                    THEN <<"viol", "C13:counts-sum">>
               ELSE IF MapThenSumSet(LAMBDA x : rec.cop.s2[x], U) # n * (n - 1) THEN <<"viol", "C13:scores-sum">>
               ELSE <<"ok", "copeland">>
        \* ------------------------------------------------------------ C14
        V14 == IF rec.pred \notin {"true", "false"} THEN <<"viol", "C14:predicate-fails">>
               ELSE IF Complete THEN (IF WF THEN <<"ok", "complete">>
                                      ELSE IF Got THEN <<"viol", "C14:complete-malformed">>
                                      ELSE <<"viol", "C14:complete-refused">>)
               ELSE IF rec.pred = "true" /\ ~Got THEN <<"viol", "C14:relevant-but-fails">>
               ELSE IF rec.pred = "true" /\ ~WF THEN <<"viol", "C14:relevant-but-malformed">>
               ELSE IF Refusing(rec.cfg) /\ rec.pred = "false" /\ Got THEN <<"viol", "C14:not-relevant-but-accepts">>
               ELSE <<"ok", "incomplete">>
    IN IF rec.out = "setup-failed" THEN <<"skip", "setup-failed">>
       ELSE IF ~IsDataset(D) \/ ~Valid(B, T) THEN <<"skip", "input-outside-domain">>
       ELSE CASE Prop = "C03" -> V03
              [] Prop = "C04" -> V04
              [] Prop = "C05" -> V05
              [] Prop = "C06" -> V06
              [] Prop = "C08" -> V08
              [] Prop = "C09" -> V09
              [] Prop = "C10" -> V10
              [] Prop = "C12" -> V12
              [] Prop = "C13" -> V13
              [] Prop = "C14" -> V14

Init == i = 0 /\ verdict = <<"init", "">>
Pick == i = 0 /\ \E j \in DOMAIN Trace : i' = j /\ verdict' = <<"pending", "">>
Eval == /\ i > 0 /\ verdict[1] = "pending" /\ i' = i
        /\ verdict' = Verdict(Trace[i])
        /\ PrintT(<<"V", Trace[i].id, verdict'[1], verdict'[2]>>)
Next == Pick \/ Eval
Spec == Init /\ [][Next]_<<i, verdict>>

AllOk == verdict[1] # "viol"
=============================================================================
