---------------------------- MODULE MC_Partition ----------------------------
(***************************************************************************)
(* Design-level theorems for C06 / C07 on the grid of datasets, for one    *)
(* scheme per configuration:                                               *)
(*   ParConsThm   every topological order of the components is respected   *)
(*                by AT LEAST ONE optimal consensus                        *)
(*   ParFrontThm  the merge fixpoint of every topological order is         *)
(*                respected by EVERY optimal consensus, is fully robust,   *)
(*                and is a consecutive coarsening of the order             *)
(*   SubSound     solving a component on the dataset projected on it with  *)
(*                empty rankings KEPT gives optima of the component        *)
(*   SubDropped   (expected to FAIL: recorded defect F13) same with the    *)
(*                rankings that miss the component dropped                 *)
(* The merge loop is a step machine (Start / Check-Merge / Advance) so     *)
(* that its termination measure is checked on every step.                  *)
(***************************************************************************)
EXTENDS Partition, Scheme

CONSTANTS N, M, B, T, BackTo    \* BackTo = 1: intended back-tracking; 2: the defective "never below the 2nd group"

VARIABLES ds, stage, order, part, idx
vars == <<ds, stage, order, part, idx>>

PR == PartialRankings(1..N)
U  == Universe(ds)
C  == Cost(ds, B, T, U)

Init == ds = <<>> /\ stage = "build" /\ order = <<>> /\ part = <<>> /\ idx = 0
AddRanking(r) == stage = "build" /\ Len(ds) < M /\ ds' = Append(ds, r) /\ UNCHANGED <<stage, order, part, idx>>
Start(o) == /\ stage = "build" /\ Len(ds) >= 1 /\ U # {}
            /\ stage' = "merge" /\ order' = o /\ part' = o /\ idx' = 1 /\ UNCHANGED ds
Merge   == /\ stage = "merge" /\ idx < Len(part) /\ MustFuse(C, part, idx)
           /\ part' = Fuse(part, idx) /\ idx' = Max2(idx - 1, BackTo) /\ UNCHANGED <<ds, stage, order>>
Advance == /\ stage = "merge" /\ idx < Len(part) /\ ~MustFuse(C, part, idx)
           /\ idx' = idx + 1 /\ UNCHANGED <<ds, stage, order, part>>
Stop    == /\ stage = "merge" /\ idx >= Len(part) /\ stage' = "done" /\ UNCHANGED <<ds, order, part, idx>>

Next == \/ \E r \in PR : AddRanking(r)
        \/ (stage = "build" /\ Len(ds) >= 1 /\ U # {} /\ \E o \in TopoOrders(C, U) : Start(o))
        \/ Merge \/ Advance \/ Stop
Spec == Init /\ [][Next]_vars

B_uni5 == <<0,4,2,0,4,2>>
T_uni5 == <<2,2,0,2,2,0>>
B_uni1 == <<0,4,4,0,4,4>>
T_uni1 == <<4,4,0,4,4,0>>
B_ind1 == <<0,4,4,0,0,0>>
T_ind1 == <<4,4,0,0,0,0>>
B_pse5 == <<0,4,2,0,4,0>>
T_pse5 == <<2,2,0,2,2,0>>
B_ext == <<0,4,0,0,0,0>>
T_ext == <<4,4,0,4,4,4>>
B_odd == <<0,3,1,1,2,2>>
T_odd == <<2,2,0,1,1,3>>

ASSUME Valid(B, T)

ParConsThm == stage = "merge" /\ idx = 1 /\ part = order =>
                 /\ IsOrderedPartition(order, U)
                 /\ \E c \in OptSet(C, U) : Respects(order, c)
ParFrontThm == stage = "done" =>
                 /\ IsOrderedPartition(part, U)
                 /\ IsConsecutiveCoarsening(part, order)
                 /\ FullyRobust(C, part)
                 /\ \A c \in OptSet(C, U) : Respects(part, c)
\* the decomposed optimum used by the trace specifications is equivalent to "some optimal consensus respects"
PartOptThm == stage = "merge" =>
                 ((\E c \in OptSet(C, U) : Respects(part, c)) <=> (PartOpt(C, part) = Opt(C, U)))
\* the step machine and the recursive definition agree
MachineIsDef == stage = "done" /\ BackTo = 1 => part = ParFront(C, order)
\* every reachable merge state makes progress: 2*Len(part) - idx strictly decreases
Progress == [][stage = "merge" /\ stage' = "merge" => 2 * Len(part') - idx' < 2 * Len(part) - idx]_vars

SubKept(S)    == Cost([i \in DOMAIN ds |-> Project(ds[i], S)], B, T, S)
SubDropped(S) == Cost(SubProblem(ds, S), B, T, S)
Restr(S)      == [p \in S \X S |-> C[p]]
SubSound == stage = "merge" /\ idx = 1 /\ part = order =>
               \A S \in SCCs(C, U) : OptSet(SubKept(S), S) = OptSet(Restr(S), S)
SubDroppedSound == stage = "merge" /\ idx = 1 /\ part = order =>
               \A S \in SCCs(C, U) : OptSet(SubDropped(S), S) \subseteq OptSet(Restr(S), S)
=============================================================================
