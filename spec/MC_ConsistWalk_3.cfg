SPECIFICATION FairSpec
CONSTANTS
  N = 3
  Malformed = FALSE
INVARIANT ReturnsTheRelation
INVARIANT NeverSpins
INVARIANT Bounded
INVARIANT LeftNeverNegative
PROPERTY Terminates
CHECK_DEADLOCK FALSE
