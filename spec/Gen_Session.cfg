SPECIFICATION Spec
CONSTANTS
  Calls = {"score", "cost_table", "parcons_partition", "parfront_partition", "borda", "copeland", "bioconsert", "bioco", "kwiksort", "pickaperm", "parcons", "exact", "read_score", "unified", "sub_problem", "eq_str", "bio2", "handbuilt_score", "handbuilt_full", "mut_remove_element", "mut_remove_rate"}
  Random = {"kwiksort"}
  Mutators = {"mut_remove_element", "mut_remove_rate"}
  MaxLen = 3
INVARIANT Repeatable
PROPERTY NoMutation
CHECK_DEADLOCK FALSE
