SPECIFICATION Spec
CONSTANTS
  Calls = {"score", "cost_table", "parcons_partition", "parfront_partition", "borda", "copeland", "bioconsert", "bioco", "kwiksort", "pickaperm", "parcons", "exact", "read_score", "unified", "sub_problem", "eq_str", "bio2", "handbuilt_score"}
  Random = {"kwiksort"}
  MaxLen = 3
INVARIANT Repeatable
PROPERTY NoMutation
CHECK_DEADLOCK FALSE
