---------------------------- MODULE Trace_Scheme ----------------------------
(***************************************************************************)
(* Trace validation for C19 (scoring schemes).                             *)
(*  op "grid"   : constructor outcomes for 243 twelve-tuples sharing a     *)
(*                7-entry prefix (the suffix enumerates {0,1,2}^5)         *)
(*  op "raw"    : constructor outcome for one malformed / odd input given  *)
(*                as a tagged tree                                         *)
(*  op "mul"    : k * s and s * k for k = num/den > 0, original untouched, *)
(*                and the library's score of (D, c) under s and under k*s  *)
(*  op "equiv"  : is_equivalent_to, the complete-rankings variant and the  *)
(*                nickname for s1 against a list of schemes                *)
(***************************************************************************)
EXTENDS Kemeny, Scheme, Json, IOUtils

VARIABLES i, verdict
Trace == ndJsonDeserialize(IOEnv.TRACE_FILE)

Pow3(k) == CASE k = 0 -> 1 [] k = 1 -> 3 [] k = 2 -> 9 [] k = 3 -> 27 [] k = 4 -> 81 [] k = 5 -> 243
Suffix(k) == [j \in 1..5 |-> (k \div Pow3(5 - j)) % 3]

\* ------------------------------------------------------------------ grid
VGrid(rec) ==
    LET bad == {k \in 0..242 :
                  LET v == rec.prefix \o Suffix(k)
                      B == SubSeq(v, 1, 6)  T == SubSeq(v, 7, 12)
                  IN rec.outs[k + 1] # (IF Valid(B, T) THEN "ok" ELSE "ForbiddenAssociationPenaltiesScoringScheme")}
    IN IF Len(rec.prefix) # 7 \/ Len(rec.outs) # 243 THEN <<"skip", "malformed-record">>
       ELSE IF bad = {} THEN <<"ok", "grid">>
       ELSE <<"viol", "C19:validation">>

\* ------------------------------------------------------------------ raw inputs
\* rec.raw = [outer |-> "list"|"tuple"|"other", rows |-> << [kind |-> .., atoms |-> << [t |-> "num"|"neg"|"str"|"none"|"odd", v |-> Nat] >>] >>]
RowShapeOK(r) == r.kind = "list" /\ Len(r.atoms) = 6
ShapeOK(raw)  == raw.outer = "list" /\ Len(raw.rows) = 2 /\ \A k \in DOMAIN raw.rows : RowShapeOK(raw.rows[k])
Atoms(raw)    == UNION {{raw.rows[k].atoms[j] : j \in DOMAIN raw.rows[k].atoms} : k \in DOMAIN raw.rows}
Odd(raw)      == \E a \in Atoms(raw) : a.t = "odd"        \* NaN, inf, bool: informational only
ValuesOK(raw) == \A a \in Atoms(raw) : a.t = "num"
Vec(r)        == [j \in 1..6 |-> r.atoms[j].v * 8 + r.atoms[j].eps]
NumAt(raw, r, j) == raw.rows[r].atoms[j].t = "num"
\* numeric value of an atom: v plus eps units in the last place (an order embedding: v * 8 + eps)
V(raw, r, j)     == raw.rows[r].atoms[j].v * 8 + raw.rows[r].atoms[j].eps
\* an association constraint whose operands are all proper numbers is violated
AssocDefect(raw) ==
    \/ NumAt(raw, 1, 1) /\ V(raw, 1, 1) # 0
    \/ NumAt(raw, 1, 2) /\ V(raw, 1, 2) = 0
    \/ NumAt(raw, 1, 4) /\ NumAt(raw, 1, 5) /\ V(raw, 1, 4) > V(raw, 1, 5)
    \/ NumAt(raw, 2, 1) /\ NumAt(raw, 2, 2) /\ V(raw, 2, 1) # V(raw, 2, 2)
    \/ NumAt(raw, 2, 3) /\ V(raw, 2, 3) # 0
    \/ NumAt(raw, 2, 4) /\ NumAt(raw, 2, 5) /\ V(raw, 2, 4) # V(raw, 2, 5)
\* if several classes of defect apply any of their exceptions is acceptable; if one applies, exactly its exception
Allowed(raw) ==
    IF ~ShapeOK(raw) THEN {"InvalidScoringScheme"} \cup (IF ValuesOK(raw) THEN {} ELSE {"NonRealPositiveValuesScoringScheme"})
    ELSE IF ~ValuesOK(raw) THEN {"NonRealPositiveValuesScoringScheme"} \cup
                                (IF AssocDefect(raw) THEN {"ForbiddenAssociationPenaltiesScoringScheme"} ELSE {})
    ELSE IF AssocDefect(raw) THEN {"ForbiddenAssociationPenaltiesScoringScheme"}
    ELSE {"ok"}
VRaw(rec) ==
    IF Odd(rec.raw) THEN <<"skip", "informational-class">>
    ELSE IF rec.out \in Allowed(rec.raw) THEN <<"ok", "raw">>
    ELSE <<"viol", "C19:validation-exception">>

\* ------------------------------------------------------------------ scaling
\* all logged penalty vectors of this record are in units of 1 / (unit * den)
VMul(rec) ==
    LET B == rec.sch[1]  T == rec.sch[2]
        expB == Scale(B, rec.num)  expT == Scale(T, rec.num)
        origB == Scale(B, rec.den) origT == Scale(T, rec.den)
    IN IF ~Valid(B, T) \/ rec.num <= 0 \/ rec.den <= 0 THEN <<"skip", "outside-domain">>
       ELSE IF rec.out # "ok" THEN <<"viol", "C19:scaling-fails">>
       ELSE IF rec.exact # 1 THEN <<"viol", "C19:scaling-values">>
       ELSE IF rec.mulB # expB \/ rec.mulT # expT \/ rec.rmulB # expB \/ rec.rmulT # expT THEN <<"viol", "C19:scaling-values">>
       ELSE IF ~Valid(rec.mulB, rec.mulT) THEN <<"viol", "C19:scaling-valid">>
       ELSE IF rec.afterB # origB \/ rec.afterT # origT \/ rec.fresh # 1 THEN <<"viol", "C19:original-untouched">>
       ELSE IF rec.imulB # expB \/ rec.imulT # expT THEN <<"viol", "C19:scaling-values">>
       ELSE IF rec.nick \in {"UKSP", "GPDP", "IGKS", "EKS"} /\ rec.nick # Nickname(rec.mulB, rec.mulT)
            THEN <<"viol", "C19:nickname">>
       ELSE IF rec.nick = "stale" \/ (rec.nick = "other" /\ Nickname(rec.mulB, rec.mulT) # "other")
            THEN <<"viol", "C19:nickname">>
       ELSE IF \E k \in DOMAIN rec.scores : rec.scores[k][2] * rec.den # rec.scores[k][1] * rec.num
            THEN <<"viol", "C19:score-homogeneity">>
       ELSE IF \E k \in DOMAIN rec.scores :
                 LET D == DsOfJson(rec.pairs[k][1])  c == RkOfJson(rec.pairs[k][2])
                 IN rec.scores[k][1] # Score(c, D, origB, origT)
            THEN <<"viol", "C19:score-homogeneity">>
       ELSE <<"ok", "scaling">>

\* ------------------------------------------------------------------ equivalence
VEquiv(rec) ==
    LET B1 == rec.s1[1]  T1 == rec.s1[2]
        bad == {k \in DOMAIN rec.others :
                  LET B2 == rec.others[k][1]  T2 == rec.others[k][2] IN
                  Valid(B2, T2) /\
                  (\/ (rec.eq6[k] = 1) # Proportional(B1, T1, B2, T2, 6)
                   \/ (rec.eq3[k] = 1) # Proportional(B1, T1, B2, T2, 3))}
    IN IF ~Valid(B1, T1) THEN <<"skip", "outside-domain">>
       ELSE IF rec.out # "ok" THEN <<"viol", "C19:equivalence-fails">>
       ELSE IF bad # {} THEN <<"viol", "C19:equivalence">>
       ELSE IF rec.nick # Nickname(B1, T1) THEN <<"viol", "C19:nickname">>
       ELSE <<"ok", "equivalence">>

Verdict(rec) == CASE rec.op = "grid" -> VGrid(rec) [] rec.op = "raw" -> VRaw(rec)
                  [] rec.op = "mul" -> VMul(rec) [] rec.op = "equiv" -> VEquiv(rec)

Init == i = 0 /\ verdict = <<"init", "">>
Pick == i = 0 /\ \E j \in DOMAIN Trace : i' = j /\ verdict' = <<"pending", "">>
Eval == /\ i > 0 /\ verdict[1] = "pending" /\ i' = i
        /\ verdict' = Verdict(Trace[i])
        /\ PrintT(<<"V", Trace[i].id, verdict'[1], verdict'[2]>>)
Next == Pick \/ Eval
Spec == Init /\ [][Next]_<<i, verdict>>
AllOk == verdict[1] # "viol"
=============================================================================
