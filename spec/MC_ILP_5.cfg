CONSTANTS N = 5
