---------------------------- MODULE BioScanDefs ----------------------------
(***************************************************************************)
(* The kernels of BioConsert's local search, transcribed (bioconsert.py):  *)
(*                                                                         *)
(*   _compute_delta_costs     RawChange, RawAdd  (the arrays `change` and  *)
(*                            `add` as the element loop leaves them)       *)
(*   _search_to_change_bucket SearchChange  (cumulation to the right from  *)
(*                            the bucket of the element, then to the left; *)
(*                            first target gaining more than the threshold)*)
(*   _search_to_add_bucket    SearchAdd                                    *)
(*   one iteration of the element loop of _improve_one_ranking   StepElem  *)
(*   the order in which the loop meets the elements               NextMove *)
(*                                                                         *)
(* Vectors are dense 0-based bucket ids per element (LocalSearch.tla); the *)
(* cost table C[<<x, y>>] = <<x before y, x after y, x tied with y>>.      *)
(* Arrays are functions over 0..n+1 (change) and 0..n+2 (add) as in the    *)
(* code.  thr is the threshold in units: the code tests `value < -0.001`,  *)
(* i.e. -value > Unit \div 1000 on integers.                               *)
(*                                                                         *)
(* What the arrays MEAN is not assumed: theorem DeltaExact (MC_BioScan)    *)
(* says that the cumulated entries are exactly the score differences of    *)
(* the moves of LocalSearch.tla, for every cost table.                     *)
(***************************************************************************)
EXTENDS LocalSearch

NElem(v) == Cardinality(DOMAIN v)

RawChange(v, x, C) ==
    LET b == v[x]
        Oth == (DOMAIN v) \ {x}
        f(k) == LET g(y) == LET c == C[<<x, y>>] IN
                        IF b < v[y] THEN (IF k = v[y] THEN c[3] - c[1] ELSE 0) + (IF k = v[y] + 1 THEN c[2] - c[3] ELSE 0)
                        ELSE IF b > v[y] THEN (IF k = v[y] THEN c[3] - c[2] ELSE 0)
                                              + (IF v[y] # 0 /\ k = v[y] - 1 THEN c[1] - c[3] ELSE 0)
                        ELSE (IF b # 0 /\ k = b - 1 THEN c[1] - c[3] ELSE 0) + (IF k = b + 1 THEN c[2] - c[3] ELSE 0)
                IN MapThenSumSet(g, Oth)
    IN [k \in 0..(NElem(v) + 1) |-> f(k)]

RawAdd(v, x, C) ==
    LET b == v[x]
        Oth == (DOMAIN v) \ {x}
        f(k) == LET g(y) == LET c == C[<<x, y>>] IN
                        IF b < v[y] THEN (IF k = v[y] + 1 THEN c[2] - c[1] ELSE 0)
                        ELSE IF b > v[y] THEN (IF k = v[y] THEN c[1] - c[2] ELSE 0)
                        ELSE (IF k = b + 1 THEN c[2] - c[3] ELSE 0) + (IF k = b THEN c[1] - c[3] ELSE 0)
                IN MapThenSumSet(g, Oth)
    IN [k \in 0..(NElem(v) + 2) |-> f(k)]

\* the entries of `change` after a complete cumulation: to the right of the bucket b of the element (b included,
\* as the code does: its entry is never fed), to the left of it
CumChange(ch, b, mx) ==
    LET cr[i \in b..mx] == IF i = b THEN ch[b] ELSE ch[i] + cr[i - 1]
        cl[i \in 0..(b - 1)] == IF i = b - 1 THEN ch[b - 1] ELSE ch[i] + cl[i + 1]
    IN [i \in 0..mx |-> IF i >= b THEN cr[i] ELSE cl[i]]

\* the entries of `add`: new bucket at id b+1 .. mx+1 (right), at id b .. 0 (left)
CumAdd(ad, b, mx) ==
    LET ar[i \in (b + 1)..(mx + 1)] == IF i = b + 1 THEN ad[b + 1] ELSE ad[i] + ar[i - 1]
        al[i \in 0..b] == IF i = b THEN ad[b] ELSE ad[i] + al[i + 1]
    IN [i \in 0..(mx + 1) |-> IF i > b THEN ar[i] ELSE al[i]]

\* first target in scan order whose cumulated entry is below the threshold: <<target, entry>>, <<-1, 0>> if none
SearchChange(b, ch, mx, thr) ==
    LET cum == CumChange(ch, b, mx)
        R == {i \in b..mx : cum[i] < -thr}
        L == {i \in 0..(b - 1) : cum[i] < -thr}
    IN IF R # {} THEN <<Min(R), cum[Min(R)]>> ELSE IF L # {} THEN <<Max(L), cum[Max(L)]>> ELSE <<-1, 0>>

SearchAdd(b, ad, mx, thr) ==
    LET cum == CumAdd(ad, b, mx)
        R == {i \in (b + 1)..(mx + 1) : cum[i] < -thr}
        L == {i \in 0..b : cum[i] < -thr}
    IN IF R # {} THEN <<Min(R), cum[Min(R)]>> ELSE IF L # {} THEN <<Max(L), cum[Max(L)]>> ELSE <<-1, 0>>

\* one iteration of the element loop: a change of bucket is preferred to a new bucket
StepElem(v, x, C, mx, thr) ==
    LET b == v[x]
        sc == SearchChange(b, RawChange(v, x, C), mx, thr)
    IN IF sc[1] >= 0
       THEN [kind |-> "change", to |-> sc[1], d |-> sc[2], v |-> ChangeF(v, x, sc[1]),
             mx |-> IF Alone(v, x) THEN mx - 1 ELSE mx]
       ELSE LET sa == SearchAdd(b, RawAdd(v, x, C), mx, thr) IN
            IF sa[1] >= 0
            THEN [kind |-> "add", to |-> sa[1], d |-> sa[2], v |-> AddF(v, x, sa[1]),
                  mx |-> IF Alone(v, x) THEN mx ELSE mx + 1]
            ELSE [kind |-> "none", to |-> -1, d |-> 0, v |-> v, mx |-> mx]

\* The loop meets the elements in increasing order, sweep after sweep, and stops after a complete sweep without
\* a move.  Elems is the sorted sequence of the elements; from is the index the scan is at.  The next move is
\* made by the first element, in cyclic order from there, that has one: <<index, step>>, <<0, ..>> if the search
\* is over.
NextMove(v, Elems, from, C, mx, thr) ==
    LET n == Len(Elems)
        cyc == [j \in 1..n |-> ((from - 1 + j - 1) % n) + 1]
        has == {j \in 1..n : StepElem(v, Elems[cyc[j]], C, mx, thr).kind # "none"}
    IN IF has = {} THEN <<0, StepElem(v, Elems[1], C, mx, thr)>>
       ELSE <<cyc[Min(has)], StepElem(v, Elems[cyc[Min(has)]], C, mx, thr)>>
=============================================================================
