------------------------------ MODULE BioFull ------------------------------
(***************************************************************************)
(* BioConsert without starting algorithms as a FUNCTION of the dataset,    *)
(* the scheme and the numbering of the elements (bioconsert.py):           *)
(*   departure rankings = the distinct unified input rankings in input     *)
(*     order, then the all-tied ranking (_departure_rankings);             *)
(*   each is improved by the local search in the scan order of the code    *)
(*     (BioScanDefs!NextMove, run to its end: RunFrom);                    *)
(*   kept = the results of minimal score; all of them (distinct), or the   *)
(*     LAST one when at most one ranking is requested.                     *)
(* With starting algorithms the departures are their consensus rankings    *)
(* (first ranking of each, in the order of the list, duplicates dropped)   *)
(* and the all-tied ranking is NOT added (BioResultFrom).                  *)
(* The properties (C08, C09) only say that the results are local optima    *)
(* no worse than the departures; this definition says WHICH rankings come  *)
(* back, and is compared with the library as drift.                        *)
(* Elements are numbered by the dataset (idOf[x] in 0..n-1); the search    *)
(* works on the ids, the scan order is the order of the ids.               *)
(***************************************************************************)
EXTENDS BioScanDefs

RECURSIVE RunFrom(_, _, _, _, _, _)
RunFrom(v, Elems, from, C, thr, fuel) ==
    LET nm == NextMove(v, Elems, from, C, MaxB(v), thr) IN
    IF nm[1] = 0 \/ fuel = 0 THEN v
    ELSE RunFrom(nm[2].v, Elems, IF nm[1] = Len(Elems) THEN 1 ELSE nm[1] + 1, C, thr, fuel - 1)

RECURSIVE DistinctInOrder(_, _)
DistinctInOrder(s, k) ==
    IF k > Len(s) THEN <<>>
    ELSE (IF \E j \in 1..(k - 1) : s[j] = s[k] THEN <<>> ELSE <<s[k]>>) \o DistinctInOrder(s, k + 1)

\* starts: the rankings (bucket orders of U) the search departs from, in order; allTied: the all-tied ranking is added
BioResultFrom(starts, allTied, U, C, idOf, flagOne, thr) ==
    LET n == Cardinality(U)
        elemOf == [i \in 1..n |-> CHOOSE x \in U : idOf[x] = i - 1]
        Cid == [p \in (1..n) \X (1..n) |-> C[<<elemOf[p[1]], elemOf[p[2]]>>]]
        Elems == [j \in 1..n |-> j]
        vecOf(r) == [i \in 1..n |-> BIdx(r, elemOf[i]) - 1]
        vecs == [k \in DOMAIN starts |-> vecOf(starts[k])]
        deps == DistinctInOrder(vecs, 1) \o (IF allTied THEN << [i \in 1..n |-> 0] >> ELSE <<>>)
        fin == [k \in DOMAIN deps |-> RunFrom(deps[k], Elems, 1, Cid, thr, 500)]
        sc == [k \in DOMAIN fin |-> ScoreK(KeyV(fin[k]), Cid, 1..n)]
        best == Min({sc[k] : k \in DOMAIN fin})
        bestIdx == {k \in DOMAIN fin : sc[k] = best}
        chosen == IF flagOne THEN {fin[Max(bestIdx)]} ELSE {fin[k] : k \in bestIdx}
        back(w) == LET o == OrderOf(w) IN [b \in DOMAIN o |-> {elemOf[i] : i \in o[b]}]
    IN {back(w) : w \in chosen}

\* without starting algorithms: the unified input rankings, then the all-tied ranking
BioResult(D, U, C, idOf, flagOne, thr) ==
    BioResultFrom([k \in DOMAIN D |-> Unify(D[k], U)], TRUE, U, C, idOf, flagOne, thr)

IdsUsable(ids, U) == /\ U # {} /\ Len(ids) >= Max(U)
                     /\ {ids[x] : x \in U} = 0..(Cardinality(U) - 1)
=============================================================================
