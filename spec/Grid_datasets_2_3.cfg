CONSTANTS N = 2 M = 3 What = "datasets"
