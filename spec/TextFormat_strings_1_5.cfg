CONSTANTS N = 1 What = "strings" MaxLen = 5
