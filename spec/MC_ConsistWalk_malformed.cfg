SPECIFICATION Spec
CONSTANTS
  N = 3
  Malformed = TRUE
INVARIANT ReturnsTheRelation
INVARIANT MalformedNeverSpins
CHECK_DEADLOCK FALSE
