---------------------------- MODULE MC_MarkovApa ----------------------------
EXTENDS Integers, FiniteSets
N == 6
Complete == FALSE
VARIABLE
    \* @type: Int -> Int;
    v
INSTANCE MarkovGen
IndInit == v \in [1..N -> (-1)..(N - 1)] /\ DenseAlt(v) /\ (Complete => \A e \in 1..N : v[e] >= 0)
IndInv == TypeOK /\ DenseAlt(v) /\ CompleteInv
=============================================================================
