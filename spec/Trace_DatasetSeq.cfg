SPECIFICATION TraceSpec
CONSTANTS
  N = 3
  M = 1
  MaxOps = 64
INVARIANT LiveIsDatasetT
INVARIANT AllOk
CHECK_DEADLOCK FALSE
