SPECIFICATION Spec
CONSTANTS
  N = 4
  M = 2
  B <- B_uni1
  T <- T_uni1
INVARIANT BlocksPartition
INVARIANT PivotIndependent
INVARIANT CoherentDefsAgree
INVARIANT IdenticalRankings
PROPERTY Progress
CHECK_DEADLOCK FALSE
