CONSTANTS N = 4
