----------------------------- MODULE TextFormat -----------------------------
(***************************************************************************)
(* The textual format of rankings (C18).  A text is a sequence of tokens   *)
(* (strings); the harness concatenates them.  Render(r, v, Names) is the   *)
(* text of ranking r in variant v:                                         *)
(*    v.brace   TRUE: buckets as {a, b}   FALSE: buckets as [a, b]         *)
(*    v.lead / v.trail   surrounding whitespace                            *)
(*    v.prefix  a name prefix ending with ':' ("" for none)                *)
(*    v.sep     separator inside buckets and between buckets               *)
(* Names[x] is the written name of element x.  The module also enumerates  *)
(* all strings over the format's alphabet up to a length (parser totality) *)
(* and exports both as JSON lines.                                         *)
(***************************************************************************)
EXTENDS RankBase, Json, IOUtils

CONSTANTS N, What, MaxLen

Join(seqs, sep) ==          \* seqs: sequence of token sequences
    LET RECURSIVE J(_)
        J(k) == IF k > Len(seqs) THEN <<>>
                ELSE IF k = Len(seqs) THEN seqs[k] ELSE seqs[k] \o <<sep>> \o J(k + 1)
    IN J(1)

BucketText(b, v, Names) ==
    LET elems == SetToSortSeq(b, LAMBDA a, c : a < c)
        inner == Join([k \in DOMAIN elems |-> <<Names[elems[k]]>>], v.sep)
    IN <<IF v.brace THEN "{" ELSE "[">> \o inner \o <<IF v.brace THEN "}" ELSE "]">>

Render(r, v, Names) ==
    <<v.lead, v.prefix, "[">> \o Join([k \in DOMAIN r |-> BucketText(r[k], v, Names)], v.sep) \o <<"]", v.trail>>

Variants == [brace : BOOLEAN, lead : {"", " ", "\t"}, trail : {"", "  ", "\t"},
             prefix : {"", "r1:", "r 1 : "}, sep : {", ", ","}]

NamesInt     == [x \in 1..N |-> ToString(x)]
NamesBig     == [x \in 1..N |-> ToString(100 + x)]
NamesLetter  == [x \in 1..N |-> <<"a", "b", "c", "d", "e">>[x]]
NamesWord    == [x \in 1..N |-> <<"ab", "ba", "abc", "x1", "y_2">>[x]]
NamesZero    == [x \in 1..N |-> ToString(x - 1)]            \* the integer 0 is an element like any other
NamesDash    == [x \in 1..N |-> <<"--1", "---42", "-a", "a-b", "x--">>[x]]     \* not readable as integers
NamesDigitLead == [x \in 1..N |-> <<"1a", "2b", "30x", "4th", "5S">>[x]]    \* every name starts with a digit, none is a number
NameSets == <<NamesInt, NamesBig, NamesLetter, NamesWord, NamesZero, NamesDash, NamesDigitLead>>
NameKinds == <<"ints", "big", "letters", "words", "zero", "dash", "digitlead">>

\* the text determines the ranking: no two different rankings have a common rendering under the same names
SmallVariants == [brace : BOOLEAN, lead : {""}, trail : {""}, prefix : {"", "r 1 : "}, sep : {", ", ","}]
Injective(Names, VS) ==
    \A r1, r2 \in AllBucketOrders(1..N) : \A v1, v2 \in VS :
        Render(r1, v1, Names) = Render(r2, v2, Names) => r1 = r2

RkJson(r) == [k \in DOMAIN r |-> SetToSortSeq(r[k], LAMBDA a, b : a < b)]

Rendered ==
    { [text |-> Render(r, v, NameSets[k]), r |-> RkJson(r), naming |-> NameKinds[k]] :
        r \in PartialRankings(1..N), v \in Variants, k \in 1..7 }

Alphabet == {"[", "]", "{", "}", ",", ":", " ", "a", "1"}
Strings(len) == [1..len -> Alphabet]

Export ==
    CASE What = "rendered" -> ndJsonSerialize(IOEnv.OUT_FILE, SetToSeq(Rendered))
      [] What = "strings"  -> ndJsonSerialize(IOEnv.OUT_FILE, SetToSeq(UNION {Strings(l) : l \in 0..MaxLen}))
      [] What = "theorems" -> \A k \in 1..7 : Injective(NameSets[k], Variants)
      [] What = "theorems_small" -> \A k \in 1..7 : Injective(NameSets[k], SmallVariants)

ASSUME Export
=============================================================================
