----------------------------- MODULE Trace_Wide -----------------------------
(***************************************************************************)
(* Trace validation on WIDE inputs (a thousand elements and more), where   *)
(* the pair sets and cost tables of the other trace specifications do not  *)
(* fit: rankings are given as key vectors (bucket index per element, 0 =   *)
(* unranked) and the Kemeny score is the definition of Kemeny!PairPenalty  *)
(* summed by folds over index ranges (about 3 s for 1004 elements and 3    *)
(* rankings).  Aux.prop selects the clauses:                               *)
(*   C01  the score the library computes for a candidate                   *)
(*   C04  the score a consensus object reports                             *)
(*   C09  BioConsert not worse than its starting points                    *)
(*   C10  PickAPerm returns minimal input rankings                         *)
(*   C17  dataset equality (records of kind "eq")                          *)
(***************************************************************************)
EXTENDS Kemeny, Json, IOUtils, SequencesExt

VARIABLES i, verdict
Trace == ndJsonDeserialize(IOEnv.TRACE_FILE)
Aux   == JsonDeserialize(IOEnv.AUX_FILE)
Prop  == Aux.prop

\* score of the candidate key ck against the dataset of key vectors Dk
ScoreDirect(ck, Dk, B, T) ==
    LET n == Len(ck)
        pen(x, y) == FoldLeft(LAMBDA acc, r : acc + PairPenalty(ck, Dk[r], B, T, x, y), 0, [r \in DOMAIN Dk |-> r])
        inner(x) == FoldLeft(LAMBDA acc, y : acc + pen(x, y), 0, [j \in 1..(n - x) |-> x + j])
    IN FoldLeft(LAMBDA acc, x : acc + inner(x), 0, [j \in 1..n |-> j])

MaxKey(k) == FoldLeft(LAMBDA acc, v : IF v > acc THEN v ELSE acc, 0, k)
UnifyKey(k) == LET m == MaxKey(k) IN [x \in DOMAIN k |-> IF k[x] = 0 THEN m + 1 ELSE k[x]]
CompleteKey(k) == \A x \in DOMAIN k : k[x] > 0
\* same bucket order (key vectors need not be numbered alike)
SameOrder(k1, k2) == \A x, y \in DOMAIN k1 : (k1[x] < k1[y]) = (k2[x] < k2[y])

VRun(rec) ==
    LET B == rec.B  T == rec.T  D == rec.D  K == rec.K
        Got == rec.out = "consensus"
        WF  == Len(K) >= 1 /\ \A k \in DOMAIN K : Len(K[k]) = rec.n /\ CompleteKey(K[k])
        Sc(c) == ScoreDirect(c, D, B, T)
        ScK == TLCEval([k \in DOMAIN K |-> Sc(K[k])])
        Starts == [r \in DOMAIN D |-> UnifyKey(D[r])]
        ScS == TLCEval([r \in DOMAIN D |-> Sc(Starts[r])])
        ScTied == Sc([x \in 1..rec.n |-> 1])
        MinS == CHOOSE m \in {ScS[r] : r \in DOMAIN D} : \A r \in DOMAIN D : m <= ScS[r]
    IN IF rec.out = "setup-failed" THEN <<"skip", "setup-failed">>
       ELSE IF Prop = "C01" THEN
            (IF rec.out # "score" THEN <<"viol", "C01:accept">>
             ELSE IF rec.rep[2] # 1 \/ rec.rep[1] # Sc(K[1]) THEN <<"viol", "C01:score">>
             ELSE <<"ok", "wide-score">>)
       ELSE IF ~Got THEN <<"viol", "C03:fails-instead-of-returning-a-consensus">>
       ELSE IF ~WF THEN <<"viol", "C03:buckets">>
       ELSE IF Prop = "C04" THEN
            (IF rec.rep[2] # 1 \/ rec.rep[1] # ScK[1] THEN <<"viol", "C04:score">> ELSE <<"ok", "wide-reported-score">>)
       ELSE IF Prop = "C09" THEN
            (IF \E k \in DOMAIN K : ScK[k] # ScK[1] THEN <<"viol", "C09:same-score">>
             ELSE IF \E r \in DOMAIN D : ScK[1] > ScS[r] THEN <<"viol", "C09:worse-than-start">>
             ELSE IF ScK[1] > ScTied THEN <<"viol", "C09:worse-than-start">>
             ELSE <<"ok", "wide-noworse">>)
       ELSE IF Prop = "C10" THEN
            (IF \E k \in DOMAIN K : \A r \in DOMAIN D : ~SameOrder(K[k], Starts[r]) THEN <<"viol", "C10:is-input-ranking">>
             ELSE IF \E k \in DOMAIN K : ScK[k] # MinS THEN <<"viol", "C10:minimal">>
             ELSE IF rec.flag = 0 /\ \E r \in DOMAIN D : ScS[r] = MinS /\ \A k \in DOMAIN K : ~SameOrder(K[k], Starts[r])
                  THEN <<"viol", "C10:all-minimal">>
             ELSE <<"ok", "wide-best-inputs">>)
       ELSE <<"skip", "no-clause">>

\* dataset equality on wide datasets: a, b = sequences of key vectors
VEq(rec) ==
    LET SameRk(k1, k2) == k1 = k2            \* key vectors are dense and numbered alike by the harness projection
        Count(Ds, k) == Cardinality({r \in DOMAIN Ds : SameRk(Ds[r], k)})
        exp == /\ Len(rec.a) = Len(rec.b)
               /\ \A r \in DOMAIN rec.a : Count(rec.a, rec.a[r]) = Count(rec.b, rec.a[r])
    IN IF rec.out = "setup-failed" THEN <<"skip", "setup-failed">>
       ELSE IF rec.out # "ok" THEN <<"viol", "C17:equality-fails">>
       ELSE IF (rec.ab = 1) # exp THEN <<"viol", "C17:equality">>
       ELSE IF rec.ab # rec.ba THEN <<"viol", "C17:symmetry">>
       ELSE IF rec.aa # 1 \/ rec.bb # 1 THEN <<"viol", "C17:reflexivity">>
       ELSE IF rec.neq = rec.ab THEN <<"viol", "C17:not-equal-operator">>
       ELSE <<"ok", "wide-equality">>

Verdict(rec) == IF rec.kind = "eq" THEN VEq(rec) ELSE VRun(rec)

Init == i = 0 /\ verdict = <<"init", "">>
Pick == i = 0 /\ \E j \in DOMAIN Trace : i' = j /\ verdict' = <<"pending", "">>
Eval == /\ i > 0 /\ verdict[1] = "pending" /\ i' = i
        /\ verdict' = Verdict(Trace[i])
        /\ PrintT(<<"V", Trace[i].id, verdict'[1], verdict'[2]>>)
Next == Pick \/ Eval
Spec == Init /\ [][Next]_<<i, verdict>>
AllOk == verdict[1] # "viol"
=============================================================================
