---------------------------- MODULE SchemeEquiv ----------------------------
(***************************************************************************)
(* ScoringScheme.__is_equivalent_to_generic (scoringscheme.py) transcribed *)
(* with exact rationals: the loop over the two penalty vectors and their   *)
(* first `stop` entries keeps the quotient of the first pair of non-null   *)
(* penalties (`coefficient`, here a pair <<numerator, denominator>>) and   *)
(* returns False at the first entry whose quotient differs, or where one   *)
(* penalty is null and the other is not.                                   *)
(* Theorem LoopIsProportional: on every pair of a family of valid schemes  *)
(* (entries 0..1, their doubles and triples, and each of those with one    *)
(* entry increased by one: proportional pairs, near-proportional pairs,    *)
(* pairs that differ by a null entry) the loop answers Scheme!Proportional *)
(* (cross-multiplication over all pairs of entries), for the complete-     *)
(* rankings variant (stop = 3) and the general one (stop = 6).  The        *)
(* library divides floats where this module compares fractions: the        *)
(* quotients of proportional dyadic penalties are the same double, which   *)
(* is what the conformance stages of C19 observe.                          *)
(***************************************************************************)
EXTENDS Scheme, FiniteSets, TLC

\* state of the loop: done = the answer is already known; coef = <<n, d>>, <<0, 0>> standing for "nan"
StepEntry(st, a, b) ==
    IF st.done THEN st
    ELSE IF a = 0 THEN (IF b # 0 THEN [st EXCEPT !.done = TRUE, !.ans = FALSE] ELSE st)
    ELSE IF b = 0 THEN [st EXCEPT !.done = TRUE, !.ans = FALSE]
    ELSE IF st.coef = <<0, 0>> THEN [st EXCEPT !.coef = <<a, b>>]
    ELSE IF a * st.coef[2] # st.coef[1] * b THEN [st EXCEPT !.done = TRUE, !.ans = FALSE]
    ELSE st

RECURSIVE RunLoop(_, _, _, _)
RunLoop(st, v, w, i) == IF i > Len(v) THEN st ELSE RunLoop(StepEntry(st, v[i], w[i]), v, w, i + 1)

LoopAnswer(B1, T1, B2, T2, stop) ==
    LET v == Flat(B1, T1, stop)  w == Flat(B2, T2, stop)
    IN RunLoop([done |-> FALSE, ans |-> TRUE, coef |-> <<0, 0>>], v, w, 1).ans

Vectors == [1..6 -> 0..1]
Base == {s \in Vectors \X Vectors : Valid(s[1], s[2])}
Times(s, k) == << [i \in 1..6 |-> k * s[1][i]], [i \in 1..6 |-> k * s[2][i]] >>
Bump(s, v, i) == [s EXCEPT ![v][i] = @ + 1]
Family == LET M == Base \cup {Times(s, 2) : s \in Base} \cup {Times(s, 3) : s \in Base}
          IN {x \in M \cup {Bump(s, v, i) : s \in M, v \in 1..2, i \in 1..6} : Valid(x[1], x[2])}

VARIABLES s1, ok
Init == s1 = <<>> /\ ok = TRUE
Pick == s1 = <<>> /\ \E a \in Family :
            /\ s1' = a
            /\ ok' = \A b \in Family : \A stop \in {3, 6} :
                        LoopAnswer(a[1], a[2], b[1], b[2], stop) = Proportional(a[1], a[2], b[1], b[2], stop)
Spec == Init /\ [][Pick]_<<s1, ok>>
LoopIsProportional == ok
=============================================================================
