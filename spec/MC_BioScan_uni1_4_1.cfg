SPECIFICATION Spec
CONSTANTS
  N = 4
  M = 1
  B <- B_uni1
  T <- T_uni1
  Unit = 4
INVARIANT DenseInv
INVARIANT Bookkeeping
INVARIANT DoneIsLocalOpt
INVARIANT CleanPrefix
INVARIANT NeverWorse
PROPERTY Decrease
CHECK_DEADLOCK FALSE
