----------------------------- MODULE Trace_Local -----------------------------
(***************************************************************************)
(* Trace validation of the BioConsert local search move by move (C08 and   *)
(* the "local search bookkeeping" clause of C04), on the un-jitted twin of *)
(* the numba kernels.  One record = the improvement of ONE departure       *)
(* ranking:                                                                *)
(*   start   dense bucket-id vector given to the search (per element id)   *)
(*   moves   << <<kind, element id, old id, target id, alone, vector after>> *)
(*   delta   what the search returned (accumulated score difference)       *)
(*   tab     the cost table the search was given (units), per element id   *)
(* The machine of LocalSearch.tla must be able to take every logged move   *)
(* (an improving Change / Add whose renumbering gives the logged vector),  *)
(* and Stop must be enabled at the end (local optimum).                    *)
(* Beyond the properties (drift): the logged moves must be EXACTLY the     *)
(* moves of the transcribed kernels in the scan order of the code          *)
(* (BioScanDefs!NextMove: which element moves next, change or new bucket,  *)
(* which target), and the search must stop where the transcription stops.  *)
(***************************************************************************)
EXTENDS BioScanDefs, Json, IOUtils

VARIABLES i, verdict
Trace == ndJsonDeserialize(IOEnv.TRACE_FILE)
Aux   == JsonDeserialize(IOEnv.AUX_FILE)
Prop  == Aux.prop          \* "C08": dense numbering + local optimum ; "C04": bookkeeping of the score

Verdict(rec) ==
    LET n    == Len(rec.start)
        U    == 1..n
        Unit == rec.unit
        C    == [p \in U \X U |-> rec.tab[p[1]][p[2]]]
        Vec(k) == IF k = 0 THEN rec.start ELSE rec.moves[k][6]
        Sc(r) == ScoreK(r, C, U)
        MoveOK(k) ==
            LET m == rec.moves[k]  before == Vec(k - 1)  e == m[2] + 1 IN
            /\ before[e] = m[3]
            /\ (m[5] = 1) = Alone(before, e)
            /\ Vec(k) = (IF m[1] = "change" THEN ChangeF(before, e, m[4]) ELSE AddF(before, e, m[4]))
        Improving(k) == Improves(Sc(Vec(k - 1)), Sc(Vec(k)), Unit)
        Elems == [j \in 1..n |-> j]
        Thr   == Unit \div 1000
        From(k) == IF k = 1 THEN 1 ELSE (IF rec.moves[k - 1][2] + 1 = n THEN 1 ELSE rec.moves[k - 1][2] + 2)
        Pred(k) == NextMove(Vec(k - 1), Elems, From(k), C, MaxB(Vec(k - 1)), Thr)
        ScanOK(k) == LET p == Pred(k)  m == rec.moves[k] IN
                     p[1] = m[2] + 1 /\ p[2].kind = m[1] /\ p[2].to = m[4] /\ p[2].v = Vec(k)
        StopOK == NextMove(Vec(Len(rec.moves)), Elems, From(Len(rec.moves) + 1), C, MaxB(Vec(Len(rec.moves))), Thr)[1] = 0
        last == Vec(Len(rec.moves))
    IN IF rec.out # "ok" THEN <<"skip", rec.out>>
       ELSE IF ~DenseV(rec.start) THEN <<"skip", "start-not-dense">>
       ELSE IF \E k \in DOMAIN rec.moves : ~DenseV(Vec(k)) THEN
            (IF Prop = "C08" THEN <<"viol", "C08:bucket-numbering-not-dense">> ELSE <<"skip", "vector-not-dense">>)
       ELSE IF Prop = "C08" /\ ~LocalOpt(OrderOf(last), C, U, Unit) THEN <<"viol", "C08:local-optimum">>
       ELSE IF Prop = "C04" /\ (rec.exact # 1 \/ Sc(last) - Sc(rec.start) # rec.delta)
            THEN <<"viol", "C04:local-search-bookkeeping">>
       ELSE IF \E k \in DOMAIN rec.moves : ~MoveOK(k) THEN <<"drift", "move-is-not-a-model-step">>
       ELSE IF \E k \in DOMAIN rec.moves : ~Improving(k) THEN <<"drift", "move-does-not-improve">>
       ELSE IF \E k \in DOMAIN rec.moves : ~ScanOK(k) THEN <<"drift", "move-is-not-the-move-of-the-transcribed-scan">>
       ELSE IF ~StopOK THEN <<"drift", "search-stops-before-the-transcribed-scan">>
       ELSE <<"ok", "local-search">>

Init == i = 0 /\ verdict = <<"init", "">>
Pick == i = 0 /\ \E j \in DOMAIN Trace : i' = j /\ verdict' = <<"pending", "">>
Eval == /\ i > 0 /\ verdict[1] = "pending" /\ i' = i
        /\ verdict' = Verdict(Trace[i])
        /\ PrintT(<<"V", Trace[i].id, verdict'[1], verdict'[2]>>)
Next == Pick \/ Eval
Spec == Init /\ [][Next]_<<i, verdict>>
AllOk == verdict[1] # "viol"
=============================================================================
