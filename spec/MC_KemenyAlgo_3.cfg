SPECIFICATION Spec
CONSTANTS NMax = 3
INVARIANT Holds
CHECK_DEADLOCK FALSE
