SPECIFICATION Spec
CONSTANTS
  N = 4
  M = 1
  B <- B_thr
  T <- T_thr
  Unit = 1024
INVARIANT DenseInv
INVARIANT Bookkeeping
INVARIANT DoneIsLocalOpt
INVARIANT CleanPrefix
INVARIANT NeverWorse
PROPERTY Decrease
CHECK_DEADLOCK FALSE
