--------------------------- MODULE Trace_Dataset ---------------------------
(***************************************************************************)
(* Trace validation for C16 (views of Ranking / Dataset objects), C17      *)
(* (dataset equality) and the file round trip of C18.                      *)
(*                                                                         *)
(* A record of kind "step" is one operation applied to ONE live Dataset    *)
(* object (construction or a mutator), with the full observation of the    *)
(* object after the call, of its unified rankings, its unified dataset and *)
(* some projections.  Records of one session follow each other on the same *)
(* object; each carries the rankings observed before the call, so every    *)
(* step is validated on its own (re-synchronised on the implementation).   *)
(* The verdict is computed from the views only: every accessor must agree  *)
(* with the buckets the object itself reports.  What the mutator should    *)
(* have produced (DatasetSM) is compared as drift.                         *)
(***************************************************************************)
EXTENDS DatasetSM, Json, IOUtils

VARIABLES i, verdict
Trace == ndJsonDeserialize(IOEnv.TRACE_FILE)

\* ---------------------------------------------------------------- one ranking object
\* o = [rk |-> buckets, pos |-> positions per element of E (0 = absent), dom, nbe, len]
RankErr(o, E) ==
    LET r == RkOfJson(o.rk) IN
    IF ~(NoDupJson(o.rk) /\ IsRanking(r)) THEN "buckets"
    ELSE IF ~(Dom(r) \subseteq E) THEN "foreign-element"
    ELSE IF \E x \in E : o.pos[x] # Pos(r, x) THEN "positions"
    ELSE IF ToSet(o.dom) # Dom(r) \/ Len(o.dom) # Cardinality(Dom(r)) THEN "domain"
    ELSE IF o.nbe # Cardinality(Dom(r)) THEN "nb_elements"
    ELSE IF o.len # Len(r) THEN "len"
    ELSE "ok"

RECURSIVE FirstErr(_, _, _)
FirstErr(rs, E, k) == IF k > Len(rs) THEN "ok"
                      ELSE LET e == RankErr(rs[k], E) IN IF e # "ok" THEN e ELSE FirstErr(rs, E, k + 1)

\* ---------------------------------------------------------------- one dataset object
DsOf(o) == [k \in DOMAIN o.rks |-> RkOfJson(o.rks[k].rk)]

DatasetErr(o, E) ==
    LET re == FirstErr(o.rks, E, 1) IN
    IF re # "ok" THEN re
    ELSE LET R == DsOf(o)
             U == Universe(R)
             n == Cardinality(U)
             id(x) == o.e2i[x]
         IN
         IF ToSet(o.uni) # U \/ Len(o.uni) # n THEN "universe"
         ELSE IF o.n # n THEN "dataset-nb_elements"
         ELSE IF o.nbr # Len(R) THEN "nb_rankings"
         ELSE IF \/ \E x \in U : id(x) \notin 0..(n - 1)
                 \/ \E x \in E \ U : id(x) # -1
                 \/ \E x, y \in U : x # y /\ id(x) = id(y)
                 \/ o.extra # 0 THEN "mapping_elem_id"
         ELSE IF \/ Len(o.i2e) # n
                 \/ {<<o.i2e[k][1], o.i2e[k][2]>> : k \in DOMAIN o.i2e} # {<<id(x), x>> : x \in U}
              THEN "mapping_id_elem"
         ELSE IF o.types # (IF o.intlike = 1 THEN "int" ELSE "str") THEN "element-types"
         ELSE IF (o.complete = 1) # IsCompleteDS(R) THEN "is_complete"
         ELSE IF (o.noties = 1) # WithoutTies(R) THEN "without_ties"
         ELSE IF o.matok # 1 \/ Len(o.P) # n \/ Len(o.Bk) # n THEN "matrix-shape"
         ELSE IF \E x \in U, k \in DOMAIN R : o.P[id(x) + 1][k] # Pos(R[k], x) - 1 THEN "positions-matrix"
         ELSE IF \E x \in U, k \in DOMAIN R : o.Bk[id(x) + 1][k] # BIdx(R[k], x) - 1 THEN "bucket-ids-matrix"
         ELSE "ok"

\* The numbering the code actually uses (dataset.py, _analyse_rankings): elements are numbered in the order of their
\* first appearance -- ranking by ranking, bucket by bucket; inside one bucket the order is the iteration order of a
\* Python set, which the specification leaves free.  The properties only ask for a bijection (DatasetErr); this finer
\* statement is compared as drift.  The scan order of BioConsert and of the exact models follows this numbering.
FirstApp(R, x) == LET k == Min({j \in DOMAIN R : x \in Dom(R[j])}) IN <<k, BIdx(R[k], x)>>
AppearsBefore(R, x, y) == LET a == FirstApp(R, x)  b == FirstApp(R, y) IN a[1] < b[1] \/ (a[1] = b[1] /\ a[2] < b[2])
IdsInFirstAppearanceOrder(o) ==
    LET R == DsOf(o)  U == Universe(R) IN
    \A x, y \in U : AppearsBefore(R, x, y) => o.e2i[x] < o.e2i[y]

\* ---------------------------------------------------------------- a step on a live object
RECURSIVE SubsErr(_, _, _, _)
SubsErr(subs, R, E, k) ==
    IF k > Len(subs) THEN "ok"
    ELSE LET s == subs[k]  S == ToSet(s.S) IN
         IF s.out # "ok" THEN SubsErr(subs, R, E, k + 1)
         ELSE LET e == DatasetErr(s.obs, E) IN
              IF e # "ok" THEN "projection-" \o e
              ELSE IF S \cap Universe(R) # {} /\ DsOf(s.obs) # SubProblem(R, S) THEN "projection"
              ELSE SubsErr(subs, R, E, k + 1)

ModelAfter(rec) ==
    LET D == DsOfJson(rec.pre) IN
    CASE rec.op = "construct"       -> D
      [] rec.op = "scribble"        -> D      \* the caller modified its own copies: no transition of the dataset
      [] rec.op = "remove_elements" -> RemoveElementsF(D, ToSet(rec.S))
      [] rec.op = "remove_rate"     -> RemoveRateF(D, rec.p, rec.q)
      [] rec.op = "remove_empty"    -> RemoveEmptyF(D)

VStep(rec) ==
    LET E  == 1..rec.ne
        e0 == DatasetErr(rec.obs, E)
        R  == DsOf(rec.obs)
        U  == Universe(R)
        eu == FirstErr(rec.unirks, E, 1)
        UR == [k \in DOMAIN rec.unirks |-> RkOfJson(rec.unirks[k].rk)]
        ed == IF rec.unids.out = "ok" THEN DatasetErr(rec.unids.obs, E) ELSE "unified-dataset-fails"
        es == SubsErr(rec.subs, R, E, 1)
        new == ModelAfter(rec)
        \* Ranking objects obtained from the dataset before earlier calls of the session, observed again now
        eh == FirstErr(rec.held, E, 1)
    IN IF rec.alive # 1 THEN <<"skip", "no-object">>
       ELSE IF e0 # "ok" THEN <<"viol", "C16:" \o e0>>
       ELSE IF eh # "ok" THEN <<"viol", "C16:ranking-obtained-before-the-call-" \o eh>>
       ELSE IF eu # "ok" THEN <<"viol", "C16:unified-rankings-" \o eu>>
       ELSE IF UR # UnifiedDS(R) THEN <<"viol", "C16:unification">>
       ELSE IF ed # "ok" THEN <<"viol", "C16:unified-dataset-" \o ed>>
       ELSE IF DsOf(rec.unids.obs) # UnifiedDS(R) THEN <<"viol", "C16:unification">>
       ELSE IF es # "ok" THEN <<"viol", "C16:" \o es>>
       ELSE IF rec.out = "ok" /\ Acceptable(new) /\ R # new THEN <<"drift", "state-differs-from-model">>
       ELSE IF rec.out = "ok" /\ ~Acceptable(new) THEN <<"drift", "model-refuses">>
       ELSE IF rec.out # "ok" /\ Acceptable(new) THEN <<"drift", "implementation-refuses:" \o rec.out>>
       ELSE IF rec.out # "ok" /\ R # DsOfJson(rec.pre) THEN <<"drift", "state-changed-by-refused-call">>
       ELSE IF ~IdsInFirstAppearanceOrder(rec.obs) THEN <<"drift", "ids-not-in-order-of-first-appearance">>
       ELSE <<"ok", "views">>

\* ---------------------------------------------------------------- a ranking from any source
VRanking(rec) ==
    LET e == RankErr(rec.obs, 1..rec.ne) IN
    IF rec.out # "ok" THEN <<"skip", rec.out>>
    ELSE IF e # "ok" THEN <<"viol", "C16:" \o rec.src \o "-" \o e>>
    ELSE <<"ok", "ranking-views">>

\* ---------------------------------------------------------------- equality (C17)
\* concrete datasets are sequences of rankings whose buckets are SEQUENCES of insertions (insertion order is
\* part of the concrete state, not of the abstract value); Abs forgets it
Eq(D1, D2) == Bag(D1) = Bag(D2)
VEq(rec) ==
    LET D1 == DsOfJson(rec.a)  D2 == DsOfJson(rec.b)
        exp == Eq(D1, D2)
    IN IF rec.out = "setup-failed" THEN <<"skip", "setup-failed">>
       ELSE IF ~(IsDataset(D1) /\ IsDataset(D2)) THEN <<"skip", "input-outside-domain">>
       ELSE IF rec.out # "ok" THEN <<"viol", "C17:equality-fails">>
       ELSE IF (rec.ab = 1) # exp THEN <<"viol", "C17:equality">>
       ELSE IF rec.ab # rec.ba THEN <<"viol", "C17:symmetry">>
       ELSE IF rec.aa # 1 \/ rec.bb # 1 THEN <<"viol", "C17:reflexivity">>
       ELSE IF rec.neq = rec.ab THEN <<"viol", "C17:not-equal-operator">>
       ELSE IF (rec.rankeq = 1) # exp THEN <<"viol", "C17:consistent-with-ranking-equality">>
       ELSE <<"ok", "equality">>

\* ---------------------------------------------------------------- file round trip (C18)
VFile(rec) ==
    LET D == DsOfJson(rec.D)  Rd == DsOfJson(rec.read) IN
    IF ~IsDataset(D) THEN <<"skip", "input-outside-domain">>
    ELSE IF rec.out # "ok" THEN <<"viol", "C18:file-round-trip-fails">>
    ELSE IF ~Eq(D, Rd) THEN <<"viol", "C18:file-round-trip">>
    ELSE IF rec.typesok # 1 THEN <<"viol", "C18:file-round-trip-types">>
    ELSE <<"ok", "file">>

Verdict(rec) == CASE rec.kind = "step" -> VStep(rec) [] rec.kind = "ranking" -> VRanking(rec)
                  [] rec.kind = "eq" -> VEq(rec) [] rec.kind = "file" -> VFile(rec)

Init == i = 0 /\ verdict = <<"init", "">>
Pick == i = 0 /\ \E j \in DOMAIN Trace : i' = j /\ verdict' = <<"pending", "">>
Eval == /\ i > 0 /\ verdict[1] = "pending" /\ i' = i
        /\ verdict' = Verdict(Trace[i])
        /\ PrintT(<<"V", Trace[i].id, verdict'[1], verdict'[2]>>)
Next == Pick \/ Eval
Spec == Init /\ [][Next]_<<i, verdict>>
AllOk == verdict[1] # "viol"
=============================================================================
