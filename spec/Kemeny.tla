------------------------------- MODULE Kemeny -------------------------------
(***************************************************************************)
(* The generalized Kemeny score, the pairwise cost table, the optimum and  *)
(* the set of optimal consensus rankings -- all *by definition*: a double  *)
(* sum over rankings and unordered pairs of a penalty looked up through a  *)
(* six-valued status.  No merge sort, no prefix sums, no ILP.              *)
(***************************************************************************)
EXTENDS RankBase

\* status of the ordered pair (x, y) in input ranking r
Status(r, x, y) ==
    LET a == BIdx(r, x)  b == BIdx(r, y) IN
    IF a > 0 /\ b > 0 THEN (IF a < b THEN 1 ELSE IF a > b THEN 2 ELSE 3)
    ELSE IF a > 0 THEN 4 ELSE IF b > 0 THEN 5 ELSE 6

\* same, from key functions (0 = unranked)
StatusK(k, x, y) ==
    LET a == k[x]  b == k[y] IN
    IF a > 0 /\ b > 0 THEN (IF a < b THEN 1 ELSE IF a > b THEN 2 ELSE 3)
    ELSE IF a > 0 THEN 4 ELSE IF b > 0 THEN 5 ELSE 6

Pairs(U) == {p \in U \X U : p[1] < p[2]}

\* penalty of one unordered pair {x,y} of candidate elements w.r.t. one input ranking
\* ck = candidate key (all of E ranked, >0), rk = input key over E (0 = unranked)
PairPenalty(ck, rk, B, T, x, y) ==
    IF ck[x] < ck[y] THEN B[StatusK(rk, x, y)]
    ELSE IF ck[x] > ck[y] THEN B[StatusK(rk, y, x)]
    ELSE T[StatusK(rk, x, y)]

\* The score of candidate c against dataset D: pairs range over the elements of the CANDIDATE
\* (elements of c foreign to the dataset are unranked in every input ranking).
Score(c, D, B, T) ==
    LET E  == Dom(c)
        ck == TLCEval(KeyOf(c, E))
        one(i) == LET rk == TLCEval(KeyOf(D[i], E))
                      f(p) == PairPenalty(ck, rk, B, T, p[1], p[2])
                  IN MapThenSumSet(f, Pairs(E))
    IN MapThenSumSet(one, DOMAIN D)

Refused(c, D) == ~(Universe(D) \subseteq Dom(c))

\* Pair counters: cnt[1][s] = number of (ranking, pair) with the pair ordered in c, status s seen from
\* the element placed first in c; cnt[2][s] = pair tied in c, status s (statuses 1/2 and 4/5 are not
\* distinguishable for a tied pair: they are reported summed under 1 and 4).
Counts(c, D) ==
    LET E  == Dom(c)
        ck == TLCEval(KeyOf(c, E))
        K  == TLCEval([i \in DOMAIN D |-> KeyOf(D[i], E)])
        code(i, p) == IF ck[p[1]] < ck[p[2]] THEN StatusK(K[i], p[1], p[2])
                      ELSE IF ck[p[1]] > ck[p[2]] THEN StatusK(K[i], p[2], p[1])
                      ELSE LET s == StatusK(K[i], p[1], p[2]) IN
                           6 + (IF s = 2 THEN 1 ELSE IF s = 5 THEN 4 ELSE s)
        codes == TLCEval([ip \in (DOMAIN D) \X Pairs(E) |-> code(ip[1], ip[2])])
        cnt(j) == Cardinality({ip \in DOMAIN codes : codes[ip] = j})
    IN [k \in 1..2 |-> [s \in 1..6 |-> cnt(6 * (k - 1) + s)]]

\* ---------------------------------------------------------------- cost table
\* Cost[<<x,y>>] = << cost of x before y, cost of x after y, cost of x tied with y >>
Cost(D, B, T, U) ==
    LET K == TLCEval([i \in DOMAIN D |-> KeyOf(D[i], U)]) IN
    TLCEval([p \in U \X U |->
        LET x == p[1]  y == p[2]
            bf(i) == B[StatusK(K[i], x, y)]
            af(i) == B[StatusK(K[i], y, x)]
            ti(i) == T[StatusK(K[i], x, y)]
        IN <<MapThenSumSet(bf, DOMAIN D), MapThenSumSet(af, DOMAIN D), MapThenSumSet(ti, DOMAIN D)>>])

\* score of a candidate given as a key function (any integers; ordering = comparison of keys)
ScoreK(key, C, U) ==
    LET f(p) == IF key[p[1]] < key[p[2]] THEN C[p][1]
                ELSE IF key[p[1]] > key[p[2]] THEN C[p][2] ELSE C[p][3]
    IN MapThenSumSet(f, Pairs(U))

ScoreFromCost(c, C, U) == ScoreK(KeyOf(c, U), C, U)

\* ---------------------------------------------------------------- optimum (brute force)
Opt(C, U)    == Min({ScoreFromCost(c, C, U) : c \in AllBucketOrders(U)})
OptSet(C, U) == LET m == Opt(C, U) IN {c \in AllBucketOrders(U) : ScoreFromCost(c, C, U) = m}

\* ---------------------------------------------------------------- optimum (subset DP)
\* OptDP[S] = min over the non-empty first bucket F of S of
\*            (ties inside F) + (F before S \ F) + OptDP[S \ F]
TieInside(C, F)   == LET f(p) == C[p][3] IN MapThenSumSet(f, Pairs(F))
BeforeCost(C, F, R) == LET f(p) == C[p][1] IN MapThenSumSet(f, F \X R)
OptDP(C, U) ==
    LET dp[S \in SUBSET U] ==
          IF S = {} THEN 0
          ELSE Min({TieInside(C, F) + BeforeCost(C, F, S \ F) + dp[S \ F] : F \in (SUBSET S) \ {{}}})
    IN dp[U]
=============================================================================
