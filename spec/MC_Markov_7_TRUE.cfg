SPECIFICATION Spec
CONSTANTS N = 7 Complete = TRUE
INVARIANT TypeOK
INVARIANT DenseInv
INVARIANT CompleteInv
CHECK_DEADLOCK FALSE
