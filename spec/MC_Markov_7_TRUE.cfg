SPECIFICATION Spec
CONSTANTS N = 7 Complete = TRUE
INVARIANT TypeOK
INVARIANT DenseInv
INVARIANT DenseAltInv
INVARIANT CompleteInv
CHECK_DEADLOCK FALSE
