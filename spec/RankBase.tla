------------------------------ MODULE RankBase ------------------------------
(***************************************************************************)
(* Shared vocabulary of the corankco specification.                        *)
(*                                                                         *)
(* Elements are integers.  A *ranking* (bucket order) is a sequence of     *)
(* non-empty, pairwise disjoint sets of elements; it may cover only part   *)
(* of the universe and may be empty (<<>>).  A *dataset* is a non-empty    *)
(* sequence of rankings whose union of domains (the universe) is not       *)
(* empty.  Everything here is definitional: no algorithm of the library    *)
(* is transcribed in this module.                                          *)
(***************************************************************************)
EXTENDS Naturals, Integers, Sequences, FiniteSets, FiniteSetsExt, SequencesExt, Functions, Folds, TLC

\* ---------------------------------------------------------------- rankings
IsRanking(r) ==
    /\ \A i \in DOMAIN r : r[i] # {}
    /\ \A i, j \in DOMAIN r : i # j => r[i] \cap r[j] = {}

Dom(r) == UNION {r[i] : i \in DOMAIN r}

\* 1-based bucket index of x in r, 0 when x is not ranked by r
BIdx(r, x) == IF \E i \in DOMAIN r : x \in r[i]
              THEN CHOOSE i \in DOMAIN r : x \in r[i]
              ELSE 0

\* number of elements of r ranked in buckets strictly before bucket b
SizeBefore(r, b) == LET f(i) == Cardinality(r[i]) IN MapThenSumSet(f, {i \in DOMAIN r : i < b})

\* 1-based position of x in r ("1 + number of elements strictly before"), 0 if unranked
Pos(r, x) == LET b == BIdx(r, x) IN IF b = 0 THEN 0 ELSE 1 + SizeBefore(r, b)

NbElements(r) == Cardinality(Dom(r))

\* the ranking as a function  element -> bucket index (0 = unranked) over a given set
KeyOf(r, U) == [x \in U |-> BIdx(r, x)]

\* a bucket order from a key function: buckets are the classes of equal key, by increasing key
FromKey(key) ==
    LET vals == {key[x] : x \in DOMAIN key}
        ord  == SetToSortSeq(vals, LAMBDA a, b : a < b)
    IN [i \in DOMAIN ord |-> {x \in DOMAIN key : key[x] = ord[i]}]

\* missing elements appended as ONE last bucket (nothing appended when nothing is missing)
Unify(r, U) == IF U \subseteq Dom(r) THEN r ELSE Append(r, U \ Dom(r))

\* projection on a set of elements: intersect every bucket, drop the buckets that become empty
Project(r, S) ==
    LET keep == SelectSeq([i \in DOMAIN r |-> r[i] \cap S], LAMBDA b : b # {})
    IN keep

AllTied(U) == IF U = {} THEN <<>> ELSE <<U>>

\* ---------------------------------------------------------------- enumerations
\* all bucket orders (ordered set partitions) of exactly the set S:  1, 1, 3, 13, 75, 541 ...
RECURSIVE AllBucketOrders(_)
AllBucketOrders(S) ==
    IF S = {} THEN {<<>>}
    ELSE UNION { { <<F>> \o rest : rest \in AllBucketOrders(S \ F) } : F \in (SUBSET S) \ {{}} }

\* all rankings over any subset of U, the empty ranking included: 26 for |U| = 3, 150 for |U| = 4
PartialRankings(U) == UNION { AllBucketOrders(S) : S \in SUBSET U }

\* ---------------------------------------------------------------- datasets
Universe(D) == UNION {Dom(D[i]) : i \in DOMAIN D}

IsDataset(D) == /\ Len(D) >= 1
                /\ \A i \in DOMAIN D : IsRanking(D[i])
                /\ Universe(D) # {}

IsCompleteDS(D) == \A i \in DOMAIN D : Dom(D[i]) = Universe(D)
WithoutTies(D)  == \A i \in DOMAIN D : \A b \in DOMAIN D[i] : Cardinality(D[i][b]) = 1

UnifiedDS(D) == [i \in DOMAIN D |-> Unify(D[i], Universe(D))]

\* projection of a dataset on S: rankings that do not meet S are DROPPED, relative order kept
SubProblem(D, S) ==
    LET keep == SelectSeq(D, LAMBDA r : Dom(r) \cap S # {})
    IN [i \in DOMAIN keep |-> Project(keep[i], S)]

\* bag (multiset) of the rankings of a dataset, as a function ranking -> multiplicity
Bag(D) == LET rs == {D[i] : i \in DOMAIN D}
          IN [r \in rs |-> Cardinality({i \in DOMAIN D : D[i] = r})]

\* ---------------------------------------------------------------- JSON helpers
\* the harness logs a ranking as an array of arrays of element numbers
RkOfJson(a) == [i \in DOMAIN a |-> ToSet(a[i])]
DsOfJson(a) == [i \in DOMAIN a |-> RkOfJson(a[i])]
\* a logged ranking is acceptable as a value only if no bucket lists an element twice
NoDupJson(a) == \A i \in DOMAIN a : Cardinality(ToSet(a[i])) = Len(a[i])

Min2(a, b) == IF a <= b THEN a ELSE b
Max2(a, b) == IF a >= b THEN a ELSE b
Min3(a, b, c) == Min2(a, Min2(b, c))
=============================================================================
