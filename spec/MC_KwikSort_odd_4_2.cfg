SPECIFICATION Spec
CONSTANTS
  N = 4
  M = 2
  B <- B_odd
  T <- T_odd
INVARIANT BlocksPartition
INVARIANT PivotIndependent
INVARIANT CoherentDefsAgree
INVARIANT IdenticalRankings
PROPERTY Progress
CHECK_DEADLOCK FALSE
