------------------------------ MODULE DatasetSM ------------------------------
(***************************************************************************)
(* The Dataset object as a state machine (C16).  Abstract state: the       *)
(* sequence of rankings rk.  Everything else the object exposes (universe, *)
(* id maps, flags, matrices, per-ranking positions/domains/sizes) is a     *)
(* *view* derived from rk; the concrete object caches those views, and the *)
(* property says the caches never disagree with rk, whatever the history.  *)
(*                                                                         *)
(* Mutators (semantics read from the code, used for drift reports only):   *)
(*   RemoveElements(S)  project every ranking on the complement of S and   *)
(*                      DROP the rankings that are or become empty         *)
(*   RemoveRate(p, q)   remove the elements ranked by fewer than p/q of    *)
(*                      the rankings (empty rankings count)                *)
(*   RemoveEmpty        drop the empty rankings                            *)
(* A mutation that would leave no ranking or no element is refused and     *)
(* leaves the state unchanged.                                             *)
(***************************************************************************)
EXTENDS RankBase

\* ------------------------------------------------------------------ operation semantics
RemoveElementsF(D, S) ==
    LET proj == [k \in DOMAIN D |-> Project(D[k], Universe(D) \ S)]
    IN SelectSeq(proj, LAMBDA r : r # <<>>)

Presence(D, x) == Cardinality({k \in DOMAIN D : x \in Dom(D[k])})
\* elements whose presence rate is strictly below p/q
RareElements(D, p, q) == {x \in Universe(D) : Presence(D, x) * q < p * Len(D)}
RemoveRateF(D, p, q) == RemoveElementsF(D, RareElements(D, p, q))

RemoveEmptyF(D) == SelectSeq(D, LAMBDA r : r # <<>>)

Acceptable(D) == Len(D) >= 1 /\ Universe(D) # {}

\* ------------------------------------------------------------------ the views (what every accessor must agree with)
PosVec(r, E)      == [x \in E |-> Pos(r, x)]
UniverseView(D)   == Universe(D)
CompleteView(D)   == IsCompleteDS(D)
NoTiesView(D)     == WithoutTies(D)

\* an id map is any bijection universe <-> 0..n-1 ; the code's first-appearance numbering is one instance
IsIdMap(f, D) == /\ DOMAIN f = Universe(D)
                 /\ {f[x] : x \in DOMAIN f} = 0..(Cardinality(Universe(D)) - 1)
                 /\ \A x, y \in DOMAIN f : x # y => f[x] # f[y]
=============================================================================
