SPECIFICATION Spec
CONSTANTS N = 5 Complete = FALSE
INVARIANT TypeOK
INVARIANT DenseInv
INVARIANT DenseAltInv
INVARIANT CompleteInv
CHECK_DEADLOCK FALSE
