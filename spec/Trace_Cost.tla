----------------------------- MODULE Trace_Cost -----------------------------
(***************************************************************************)
(* Trace validation for C02.  One record per (dataset, scheme): the table  *)
(* PairwiseBasedAlgorithm.pairwise_cost_matrix returned when fed with the  *)
(* dataset's positions (tabP) and with its bucket ids (tabB), both         *)
(* re-indexed by element number through the dataset's id map, in integer   *)
(* units, plus the library's own Kemeny score of every bucket order of the *)
(* universe under the same scheme (cs).                                    *)
(***************************************************************************)
EXTENDS Kemeny, Scheme, Json, IOUtils

VARIABLES i, verdict

Trace == ndJsonDeserialize(IOEnv.TRACE_FILE)

Verdict(rec) ==
    LET D  == DsOfJson(rec.D)
        U  == Universe(D)
        B  == rec.sch[1]
        T  == rec.sch[2]
        C  == Cost(D, B, T, U)
        TabP == [p \in U \X U |-> rec.tabP[p[1]][p[2]]]
        TabB == [p \in U \X U |-> rec.tabB[p[1]][p[2]]]
        Off  == {p \in U \X U : p[1] # p[2]}
    IN IF rec.out = "setup-failed" THEN <<"skip", "setup-failed">>
       ELSE IF ~IsDataset(D) \/ ~Valid(B, T) THEN <<"skip", "input-outside-domain">>
       ELSE IF rec.out # "table" THEN <<"viol", "C02:fails">>
       ELSE IF rec.exact # 1 THEN <<"viol", "C02:inexact">>
       ELSE IF \E p \in Off : TabP[p] # C[p] THEN <<"viol", "C02:entries">>
       ELSE IF \E p \in Off : TabB[p] # TabP[p] THEN <<"viol", "C02:same-table-from-every-entry-point">>
       ELSE IF \E p \in Off : TabP[p][1] # TabP[<<p[2], p[1]>>][2] \/ TabP[p][3] # TabP[<<p[2], p[1]>>][3]
            THEN <<"viol", "C02:mirror">>
       ELSE IF \E k \in DOMAIN rec.cs :
                 LET c == RkOfJson(rec.cs[k][1]) IN
                 Dom(c) = U /\ IsRanking(c) /\ ScoreFromCost(c, TabP, U) # rec.cs[k][2]
            THEN <<"viol", "C02:sums-to-score">>
       ELSE <<"ok", "table">>

Init == i = 0 /\ verdict = <<"init", "">>
Pick == i = 0 /\ \E j \in DOMAIN Trace : i' = j /\ verdict' = <<"pending", "">>
Eval == /\ i > 0 /\ verdict[1] = "pending" /\ i' = i
        /\ verdict' = Verdict(Trace[i])
        /\ PrintT(<<"V", Trace[i].id, verdict'[1], verdict'[2]>>)
Next == Pick \/ Eval
Spec == Init /\ [][Next]_<<i, verdict>>
AllOk == verdict[1] # "viol"
=============================================================================
