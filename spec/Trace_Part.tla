----------------------------- MODULE Trace_Part -----------------------------
(***************************************************************************)
(* Trace validation of the partitioning API (C06, C07).                    *)
(*  op = "partitions": the ParCons and ParFront ordered partitions the     *)
(*       library returned for (dataset, scheme)                            *)
(*  op = "consistent": the answer of OrderedPartition.consistent_with for  *)
(*       an (ordered partition, single-ranking consensus) pair             *)
(* Verdicts use only what the properties state (partition of the universe, *)
(* respected by some / every optimal consensus, consecutive coarsening,    *)
(* the consistency relation); equality with the model's own components and *)
(* fixpoint is reported as drift.                                          *)
(***************************************************************************)
EXTENDS Partition, Scheme, Json, IOUtils

VARIABLES i, verdict

Trace == ndJsonDeserialize(IOEnv.TRACE_FILE)
Aux   == JsonDeserialize(IOEnv.AUX_FILE)
Prop  == Aux.prop

GroupsOf(a) == [g \in DOMAIN a |-> ToSet(a[g])]

VPart(rec) ==
    LET D  == DsOfJson(rec.D)
        U  == Universe(D)
        B  == rec.sch[1]
        T  == rec.sch[2]
        C  == Cost(D, B, T, U)
        pc == GroupsOf(rec.pc)
        pf == GroupsOf(rec.pf)
        O  == OptSet(C, U)
    IN IF ~IsDataset(D) \/ ~Valid(B, T) THEN <<"skip", "input-outside-domain">>
       ELSE IF rec.out # "ok" THEN <<"viol", Prop \o ":fails">>
       ELSE IF Prop = "C06" THEN
            (IF ~IsOrderedPartition(pc, U) THEN <<"viol", "C06:partition-of-universe">>
             ELSE IF ~\E c \in O : Respects(pc, c) THEN <<"viol", "C06:admits-optimal-consensus">>
             ELSE IF ~(\E o \in TopoOrders(C, U) : o = pc) THEN <<"drift", "not-a-topological-order-of-the-SCCs">>
             ELSE <<"ok", "parcons-partition">>)
       ELSE (IF ~IsOrderedPartition(pf, U) THEN <<"viol", "C07:partition-of-universe">>
             ELSE IF ~IsOrderedPartition(pc, U) THEN <<"skip", "parcons-partition-malformed">>
             ELSE IF ~IsConsecutiveCoarsening(pf, pc) THEN <<"viol", "C07:merges-consecutive-parcons-groups">>
             ELSE IF ~\A c \in O : Respects(pf, c) THEN <<"viol", "C07:respected-by-every-optimal-consensus">>
             ELSE IF pf # ParFront(C, pc) THEN <<"drift", "not-the-model-fixpoint">>
             ELSE <<"ok", "parfront-partition">>)

\* the relation of C07: same elements, and every element of an earlier group strictly before every element of a
\* later group
Consistent(P, c) == UNION {P[g] : g \in DOMAIN P} = Dom(c) /\ Respects(P, c)

VCons(rec) ==
    LET P == GroupsOf(rec.P)
        c == RkOfJson(rec.c)
        Elems == UNION {P[g] : g \in DOMAIN P}
    IN IF ~(IsRanking(c) /\ NoDupJson(rec.c) /\ Len(c) >= 1 /\ IsOrderedPartition(P, Elems) /\ Len(P) >= 1)
       THEN <<"skip", "malformed-pair">>
       ELSE IF rec.out \notin {"true", "false"} THEN <<"viol", "C07:consistency-test-fails">>
       ELSE IF (rec.out = "true") # Consistent(P, c) THEN <<"viol", "C07:consistency-test">>
       ELSE <<"ok", "consistent-with">>

Verdict(rec) == IF rec.op = "partitions" THEN VPart(rec) ELSE VCons(rec)

Init == i = 0 /\ verdict = <<"init", "">>
Pick == i = 0 /\ \E j \in DOMAIN Trace : i' = j /\ verdict' = <<"pending", "">>
Eval == /\ i > 0 /\ verdict[1] = "pending" /\ i' = i
        /\ verdict' = Verdict(Trace[i])
        /\ PrintT(<<"V", Trace[i].id, verdict'[1], verdict'[2]>>)
Next == Pick \/ Eval
Spec == Init /\ [][Next]_<<i, verdict>>
AllOk == verdict[1] # "viol"
=============================================================================
