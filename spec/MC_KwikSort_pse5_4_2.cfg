SPECIFICATION Spec
CONSTANTS
  N = 4
  M = 2
  B <- B_pse5
  T <- T_pse5
INVARIANT BlocksPartition
INVARIANT PivotIndependent
INVARIANT CoherentDefsAgree
INVARIANT IdenticalRankings
PROPERTY Progress
CHECK_DEADLOCK FALSE
