SPECIFICATION Spec
CONSTANTS
  N = 4
  M = 2
  B <- B_ext
  T <- T_ext
  BackTo = 1
INVARIANT ParConsThm
INVARIANT ParFrontThm
INVARIANT MachineIsDef
INVARIANT PartOptThm
INVARIANT SubSound
PROPERTY Progress
CHECK_DEADLOCK FALSE
