CONSTANTS M = 3
MaxPos = 2
