----------------------------- MODULE Trace_Text -----------------------------
(***************************************************************************)
(* Trace validation for C18 (text).                                        *)
(*  kind "parse": a text rendered by TextFormat!Render from ranking r was  *)
(*                given to Ranking.from_string; got = the parsed ranking   *)
(*  kind "total": outcomes of the parser on a batch of arbitrary strings   *)
(*                over the format's alphabet                               *)
(***************************************************************************)
EXTENDS RankBase, TextScan, Json, IOUtils

VARIABLES i, verdict
Trace == ndJsonDeserialize(IOEnv.TRACE_FILE)

VParse(rec) ==
    IF rec.out # "ok" THEN <<"viol", "C18:rendered-text-refused">>
    ELSE IF ~NoDupJson(rec.got) \/ RkOfJson(rec.got) # RkOfJson(rec.r) THEN <<"viol", "C18:text-round-trip">>
    ELSE IF rec.typeok # 1 THEN <<"viol", "C18:text-round-trip-types">>
    ELSE IF rec.eq # 1 THEN <<"viol", "C18:text-round-trip-equality">>
    ELSE <<"ok", "parse">>

\* the verdict is the property's clause (no other failure mode); the scanner model's own prediction of WHICH strings
\* are accepted (TextScan!Scan) is compared as drift
VTotal(rec) ==
    IF \E k \in DOMAIN rec.outs : rec.outs[k] \notin {"ok", "ValueError"} THEN <<"viol", "C18:parser-failure-mode">>
    ELSE IF Len(rec.chars) = Len(rec.outs) /\ \E k \in DOMAIN rec.outs : Scan(rec.chars[k])[1] # rec.outs[k]
         THEN <<"drift", "scanner-model-differs">>
    ELSE <<"ok", "total">>

Verdict(rec) == IF rec.kind = "parse" THEN VParse(rec) ELSE VTotal(rec)

Init == i = 0 /\ verdict = <<"init", "">>
Pick == i = 0 /\ \E j \in DOMAIN Trace : i' = j /\ verdict' = <<"pending", "">>
Eval == /\ i > 0 /\ verdict[1] = "pending" /\ i' = i
        /\ verdict' = Verdict(Trace[i])
        /\ PrintT(<<"V", Trace[i].id, verdict'[1], verdict'[2]>>)
Next == Pick \/ Eval
Spec == Init /\ [][Next]_<<i, verdict>>
AllOk == verdict[1] # "viol"
=============================================================================
