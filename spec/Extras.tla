------------------------------- MODULE Extras -------------------------------
(***************************************************************************)
(* Behaviour of corankco that no listed property talks about, specified so *)
(* that the specification covers the public surface of the library:        *)
(*                                                                         *)
(*   Consensus        top-k of the first consensus ranking (a loop over    *)
(*                    the buckets, modelled step by step and proved equal  *)
(*                    to its definition), overlap with a gold standard,    *)
(*                    the plain views (elements, counts, iteration)        *)
(*   OrderedPartition the views of an ordered partition (group of an       *)
(*                    element, same group, i-th group, elements)           *)
(*   Element          the order and equality of elements                   *)
(*                                                                         *)
(* Differences between these definitions and the code are reported by the  *)
(* trace specification as DRIFT (no listed property is at stake).          *)
(***************************************************************************)
EXTENDS RankBase, BenchDefs

\* ---------------------------------------------------------------- Consensus.topk_ranking
\* number of elements in the first j buckets
PrefixSize(r, j) == SizeBefore(r, j + 1)

\* definition (docstring): the biggest top-k2 with k2 <= k that is not ambiguous, i.e. the longest prefix of
\* whole buckets holding at most k elements
TopKDef(r, k) ==
    LET J == {j \in 0..Len(r) : PrefixSize(r, j) <= k} IN
    IF J = {} THEN {} ELSE UNION {r[i] : i \in 1..Max(J)}

\* the loop of consensus.py:296-316, one iteration per call: state = <<nb_elements_seen, id_bucket (0-based), res>>
TopKStep(r, k, st) ==
    LET seen == st[1] + Cardinality(r[st[2] + 1]) IN
    <<seen, st[2] + 1, IF seen <= k THEN st[3] \cup r[st[2] + 1] ELSE st[3]>>
TopKGuard(r, k, st) == st[1] < k /\ st[2] < Len(r)
RECURSIVE TopKRun(_, _, _)
TopKRun(r, k, st) == IF TopKGuard(r, k, st) THEN TopKRun(r, k, TopKStep(r, k, st)) ELSE st
TopKLoop(r, k) == TopKRun(r, k, <<0, 0, {}>>)[3]

EvalTopK(r, gold, k) == Cardinality(TopKDef(r, k) \cap gold)

\* ---------------------------------------------------------------- Consensus plain views
\* a consensus object built without dataset: elements = union of the domains of ALL its rankings
ConsElements(R) == UNION {Dom(R[i]) : i \in DOMAIN R}

\* ---------------------------------------------------------------- OrderedPartition views
IsOrderedPartition(P) == /\ \A i \in DOMAIN P : P[i] # {}
                         /\ \A i, j \in DOMAIN P : i # j => P[i] \cap P[j] = {}
PElements(P) == UNION {P[i] : i \in DOMAIN P}
\* 0-based index of the group of an element, -1 when the element is in no group
WhichIndex(P, e) == IF \E i \in DOMAIN P : e \in P[i] THEN (CHOOSE i \in DOMAIN P : e \in P[i]) - 1 ELSE -1
SameGroup(P, a, b) == WhichIndex(P, a) >= 0 /\ WhichIndex(P, a) = WhichIndex(P, b)
\* what the code does (ordered_partition.py:70-78): the FIRST element is looked up in the dictionary directly
\* (KeyError when it is in no group), the second one through which_index_is
SameGroupCode(P, a, b) == IF a \notin PElements(P) THEN "KeyError"
                          ELSE IF SameGroup(P, a, b) THEN "T" ELSE "F"

\* ---------------------------------------------------------------- Element order
\* an element value is [t |-> "int", v |-> integer] or [t |-> "str", v |-> sequence of code points]
RECURSIVE LexLess(_, _)
LexLess(s, t) == IF s = <<>> THEN t # <<>>
                 ELSE IF t = <<>> THEN FALSE
                 ELSE IF Head(s) # Head(t) THEN Head(s) < Head(t)
                 ELSE LexLess(Tail(s), Tail(t))
SameType(a, b) == a.t = b.t
ElemEq(a, b) == SameType(a, b) /\ a.v = b.v
ElemLt(a, b) == IF a.t = "int" THEN a.v < b.v ELSE LexLess(a.v, b.v)
Bool(x) == IF x THEN "T" ELSE "F"
\* result of the four comparisons: refused (assert) across types
CmpLt(a, b) == IF SameType(a, b) THEN Bool(ElemLt(a, b)) ELSE "AssertionError"
CmpLe(a, b) == IF SameType(a, b) THEN Bool(ElemLt(a, b) \/ a.v = b.v) ELSE "AssertionError"
CmpGt(a, b) == IF SameType(a, b) THEN Bool(ElemLt(b, a)) ELSE "AssertionError"
CmpGe(a, b) == IF SameType(a, b) THEN Bool(ElemLt(b, a) \/ a.v = b.v) ELSE "AssertionError"
IsDigits(s) == s # <<>> /\ \A i \in DOMAIN s : s[i] \in 48..57
CanBeInt(a) == a.t = "int" \/ IsDigits(a.v)

\* ---------------------------------------------------------------- files and folders of rankings
\* (utils.py:90-123) a file is a sequence of lines; a line is a ranking line [k |-> "ranking", r |-> buckets], a
\* comment line (first character %) or a short line (at most two characters): only ranking lines count, in order.
\* A backslash at the end of a physical line glues it to the next one: a layout detail of the recorded text, the
\* abstract file is the same.
KeptLines(lines) == SelectSeq(lines, LAMBDA l : l.k = "ranking")
FileDataset(lines) == LET K == KeptLines(lines) IN [j \in DOMAIN K |-> RkOfJson(K[j].r)]
\* a folder is read file by file in the order of the file names (files carry an integer key that orders their names)
FolderOrder(files) == SortSeq(files, LAMBDA f, g : f.key < g.key)

\* ---------------------------------------------------------------- DatasetSelector
\* bounds b = [emin, emax, rmin, rmax]; the selection keeps the order (and the identity) of the datasets
Fits(D, b) == LET n == Cardinality(Universe(D))  m == Len(D) IN
              b.emin <= n /\ n <= b.emax /\ b.rmin <= m /\ m <= b.rmax
SelectedIdx(Ds, b) == SelectSeq([j \in DOMAIN Ds |-> j], LAMBDA j : Fits(Ds[j], b))

\* ---------------------------------------------------------------- the algorithm factory
\* get_algorithm(Algorithm.X, parameters) "returns an instance of the specified algorithm"
AlgNames == <<"EXACT", "PARCONS", "BIOCONSERT", "BIOCO", "KWIKSORTRANDOM", "PICKAPERM", "BORDACOUNT", "COPELANDMETHOD">>
FactoryClass(name) == CASE name = "EXACT" -> "ExactAlgorithm" [] name = "PARCONS" -> "ParCons"
                        [] name = "BIOCONSERT" -> "BioConsert" [] name = "BIOCO" -> "BioCo"
                        [] name = "KWIKSORTRANDOM" -> "KwikSortRandom" [] name = "PICKAPERM" -> "PickAPerm"
                        [] name = "BORDACOUNT" -> "BordaCount" [] name = "COPELANDMETHOD" -> "CopelandMethod"
\* the algorithms announced as compatible with any scoring scheme: those that never refuse a scheme on incomplete
\* rankings (Borda, PickAPerm and BioCo, which starts from Borda, do)
AnyScheme == {"EXACT", "PARCONS", "BIOCONSERT", "KWIKSORTRANDOM", "COPELANDMETHOD"}
=============================================================================
