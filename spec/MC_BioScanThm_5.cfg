CONSTANTS NMax = 5
