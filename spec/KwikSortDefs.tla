---------------------------- MODULE KwikSortDefs ----------------------------
(***************************************************************************)
(* KwikSort (C11): the pairwise preference that places an element         *)
(* relatively to a pivot, and coherence of the preferences.                *)
(***************************************************************************)
EXTENDS Kemeny

\* cheapest placement of x relatively to p; on equal cost: tie first, then before, then after
\* "before" = x before p
Pref(C, x, p) ==
    LET bf == C[<<x, p>>][1]  af == C[<<x, p>>][2]  ti == C[<<x, p>>][3] IN
    IF ti <= bf /\ ti <= af THEN "tie"
    ELSE IF bf <= af /\ bf < ti THEN "before"
    ELSE IF ti <= bf THEN "after"          \* ti > af
    ELSE "after"

\* relative placement of x w.r.t. y in a bucket order c
Rel(c, x, y) == LET a == BIdx(c, x)  b == BIdx(c, y) IN
                IF a < b THEN "before" ELSE IF a > b THEN "after" ELSE "tie"

\* the preferences cohere: they are exactly the pairwise placements of one ranking with ties.
\* Definition by enumeration (small universes) ...
CoherentRankingsEnum(C, U) == {c \in AllBucketOrders(U) : \A x, y \in U : x # y => Rel(c, x, y) = Pref(C, x, y)}
\* ... and constructively (any size): if such a ranking exists, an element's bucket is determined by the number of
\* elements preferred before it.  Theorem CoherentDefsAgree (KwikSort.tla) says the two definitions coincide.
CoherentCandidate(C, U) ==
    FromKey([x \in U |-> Cardinality({y \in U \ {x} : Pref(C, y, x) = "before"})])
Coherent(C, U) == LET c == CoherentCandidate(C, U) IN \A x, y \in U : x # y => Rel(c, x, y) = Pref(C, x, y)
CoherentRankings(C, U) == IF Coherent(C, U) THEN {CoherentCandidate(C, U)} ELSE {}

\* one partition step: the three groups around pivot p in group G
Before(C, G, p) == {x \in G \ {p} : Pref(C, x, p) = "before"}
Same(C, G, p)   == {p} \cup {x \in G \ {p} : Pref(C, x, p) = "tie"}
After(C, G, p)  == {x \in G \ {p} : Pref(C, x, p) = "after"}
=============================================================================
