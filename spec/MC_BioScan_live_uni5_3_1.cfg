SPECIFICATION FairSpec
CONSTANTS
  N = 3
  M = 1
  B <- B_uni5
  T <- T_uni5
  Unit = 4
PROPERTY Terminates
CHECK_DEADLOCK FALSE
