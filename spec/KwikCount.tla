----------------------------- MODULE KwikCount -----------------------------
(***************************************************************************)
(* KwikSortRandom._where_should_it_be (kwiksortrandom.py) transcribed: the *)
(* vector of the six situations of an element against the pivot is NOT     *)
(* obtained by classifying the rankings one by one; it is derived from     *)
(* five counts over the two columns of the positions matrix (-1 = not      *)
(* ranked) by inclusion-exclusion:                                         *)
(*    both_non_ranked   #(pivot + other = -2)                              *)
(*    same_position     #(pivot = other)         (both unranked included)  *)
(*    pivot_missing     #(pivot = -1)                                      *)
(*    other_missing     #(other = -1)                                      *)
(*    other_bef_pivot_or_missing   #(other < pivot)  (other unranked and   *)
(*                                  pivot ranked included)                 *)
(* Theorem CompIsStatusCount: for every pair of columns the derived vector *)
(* is the number of rankings in each of the six situations (Kemeny's       *)
(* StatusK of (other, pivot)), and the vector used for "after" is the one  *)
(* of (pivot, other).  The three costs are then the dot products with B    *)
(* (before), T (tied) and B again (after) -- Kemeny!Cost of the pair -- and *)
(* the decision is KwikSortDefs!Pref.                                      *)
(***************************************************************************)
EXTENDS KwikSortDefs

CONSTANTS M, MaxPos

Cols == [1..M -> (-1)..MaxPos]
Count(P(_)) == Cardinality({k \in 1..M : P(k)})

Comp(pp, po) ==
    LET both  == Count(LAMBDA k : pp[k] + po[k] = -2)
        same  == Count(LAMBDA k : pp[k] = po[k])
        pmiss == Count(LAMBDA k : pp[k] = -1)
        omiss == Count(LAMBDA k : po[k] = -1)
        obef  == Count(LAMBDA k : po[k] < pp[k])
    IN << obef - omiss + both,
          M - obef - same - pmiss + both,
          same - both,
          pmiss - both,
          omiss - both,
          both >>

CompAfter(pp, po) ==
    LET c == Comp(pp, po) IN << c[2], c[1], c[3], c[5], c[4], c[6] >>

\* the six situations of (x, y) in one ranking given their positions (0 = unranked for StatusK: shift by one)
Situation(px, py) == StatusK([e \in {1, 2} |-> IF e = 1 THEN px + 1 ELSE py + 1], 1, 2)
StatusCount(pa, pb) == [s \in 1..6 |-> Count(LAMBDA k : Situation(pa[k], pb[k]) = s)]

\* positions of two DIFFERENT elements of one ranking are equal only when both are ranked in the same bucket or both
\* unranked; any pair of columns is allowed here (the identity does not need more)
CompIsStatusCount ==
    \A pp \in Cols, po \in Cols :
        /\ Comp(pp, po) = StatusCount(po, pp)
        /\ CompAfter(pp, po) = StatusCount(pp, po)

\* the decision taken from the three costs (return 0 / -1 / 1) is Pref: checked for every triple of small costs
Decision(cs, cb, ca) == IF cs <= cb THEN (IF cs <= ca THEN "tie" ELSE "after")
                        ELSE IF cb <= ca THEN "before" ELSE "after"
DecisionIsPref ==
    \A cb, ca, cs \in 0..3 :
        Decision(cs, cb, ca) = Pref([p \in {<<1, 2>>} |-> <<cb, ca, cs>>], 1, 2)

ASSUME CompIsStatusCount
ASSUME DecisionIsPref
ASSUME PrintT(<<"KwikCount", Cardinality(Cols) * Cardinality(Cols)>>)
=============================================================================
