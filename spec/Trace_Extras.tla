---------------------------- MODULE Trace_Extras ----------------------------
(***************************************************************************)
(* Trace validation of the behaviour specified in Extras (no listed        *)
(* property): every difference is reported as DRIFT, never as a violation. *)
(* Record kinds: topk, cviews, pviews, elem.                               *)
(***************************************************************************)
EXTENDS Extras, Json, IOUtils, TLC

VARIABLES i, verdict
Trace == ndJsonDeserialize(IOEnv.TRACE_FILE)

\* ---------------------------------------------------------------- top-k of a consensus
VTopK(rec) ==
    LET r == RkOfJson(rec.r) IN
    IF rec.out = "setup-failed" THEN <<"skip", "setup-failed">>
    ELSE IF ~(NoDupJson(rec.r) /\ IsRanking(r)) THEN <<"skip", "input-outside-domain">>
    ELSE IF rec.out # "ok" THEN <<"drift", "topk-fails:" \o rec.out>>
    ELSE IF ToSet(rec.got) # TopKDef(r, rec.k) THEN <<"drift", "topk">>
    ELSE IF Len(rec.got) # Cardinality(TopKDef(r, rec.k)) THEN <<"drift", "topk-duplicates">>
    ELSE IF ToSet(rec.got) # TopKLoop(r, rec.k) THEN <<"drift", "topk-loop">>
    ELSE IF rec.ev # EvalTopK(r, ToSet(rec.gold), rec.k) THEN <<"drift", "evaluate-topk">>
    ELSE <<"ok", "topk">>

\* ---------------------------------------------------------------- plain views of a consensus object
VCViews(rec) ==
    LET R == DsOfJson(rec.R)
        E == IF rec.withds = 1 THEN ToSet(rec.U) ELSE ConsElements(R)
    IN IF rec.out = "setup-failed" THEN <<"skip", "setup-failed">>
       ELSE IF rec.out # "ok" THEN <<"drift", "consensus-views-fail:" \o rec.out>>
       ELSE IF rec.nbc # Len(R) \/ rec.len # Len(R) THEN <<"drift", "nb_consensus">>
       ELSE IF ToSet(rec.elems) # E \/ Len(rec.elems) # Cardinality(E) THEN <<"drift", "consensus-elements">>
       ELSE IF rec.nbe # Cardinality(E) THEN <<"drift", "consensus-nb_elements">>
       ELSE IF DsOfJson(rec.iter) # R THEN <<"drift", "consensus-iteration">>
       ELSE IF DsOfJson(rec.items) # R THEN <<"drift", "consensus-getitem">>
       ELSE IF rec.withds = 0 /\ (rec.opt # 0 \/ rec.unset # 1) THEN <<"drift", "consensus-default-features">>
       ELSE <<"ok", "consensus-views">>

\* ---------------------------------------------------------------- views of an ordered partition
VPViews(rec) ==
    LET P == RkOfJson(rec.P)
        E == 1..rec.ne
    IN IF rec.out = "setup-failed" THEN <<"skip", "setup-failed">>
       ELSE IF ~(NoDupJson(rec.P) /\ IsOrderedPartition(P)) THEN <<"skip", "input-outside-domain">>
       ELSE IF rec.out # "ok" THEN <<"drift", "partition-views-fail:" \o rec.out>>
       ELSE IF \E x \in E : rec.which[x] # WhichIndex(P, x) THEN <<"drift", "which_index_is">>
       ELSE IF \E x, y \in E : rec.same[x][y] # SameGroupCode(P, x, y) THEN <<"drift", "in_same_group">>
       ELSE IF RkOfJson(rec.groups) # P THEN <<"drift", "get_group_index">>
       ELSE IF RkOfJson(rec.iter) # P THEN <<"drift", "partition-iteration">>
       ELSE IF ToSet(rec.elems) # PElements(P) \/ Len(rec.elems) # Cardinality(PElements(P)) THEN <<"drift", "partition-elements">>
       ELSE IF rec.nbe # Cardinality(PElements(P)) THEN <<"drift", "partition-nb_elements">>
       ELSE <<"ok", "partition-views">>

\* ---------------------------------------------------------------- element order
VElem(rec) ==
    LET a == rec.a  b == rec.b IN
    IF rec.out # "ok" THEN <<"drift", "element-fails:" \o rec.out>>
    ELSE IF rec.lt # CmpLt(a, b) THEN <<"drift", "element-lt">>
    ELSE IF rec.le # CmpLe(a, b) THEN <<"drift", "element-le">>
    ELSE IF rec.gt # CmpGt(a, b) THEN <<"drift", "element-gt">>
    ELSE IF rec.ge # CmpGe(a, b) THEN <<"drift", "element-ge">>
    ELSE IF rec.eq # Bool(ElemEq(a, b)) THEN <<"drift", "element-eq">>
    ELSE IF rec.ne # Bool(~ElemEq(a, b)) THEN <<"drift", "element-ne">>
    ELSE IF rec.eqraw # Bool(ElemEq(a, b)) THEN <<"drift", "element-eq-raw-value">>
    ELSE IF ElemEq(a, b) /\ rec.hasheq # 1 THEN <<"drift", "element-hash">>
    ELSE IF rec.canint # Bool(CanBeInt(a)) THEN <<"drift", "element-can_be_int">>
    ELSE IF rec.copyeq # "T" THEN <<"drift", "element-copy">>
    ELSE <<"ok", "element">>

\* ---------------------------------------------------------------- a file with comments, short lines, continuations
VFileG(rec) ==
    LET D == FileDataset(rec.lines) IN
    IF rec.out = "setup-failed" THEN <<"skip", "setup-failed">>
    ELSE IF Len(D) = 0 \/ Universe(D) = {} \/ \E j \in DOMAIN D : ~IsRanking(D[j]) THEN <<"skip", "input-outside-domain">>
    ELSE IF rec.out # "ok" THEN <<"drift", "file-grammar-fails:" \o rec.out>>
    ELSE IF DsOfJson(rec.read) # D THEN <<"drift", "file-grammar">>
    ELSE IF rec.name # 1 THEN <<"drift", "file-dataset-name">>
    ELSE <<"ok", "file-grammar">>

VFolder(rec) ==
    LET F == FolderOrder(rec.files) IN
    IF rec.out = "setup-failed" THEN <<"skip", "setup-failed">>
    ELSE IF rec.out # "ok" THEN <<"drift", "folder-fails:" \o rec.out>>
    ELSE IF Len(rec.read) # Len(F) THEN <<"drift", "folder-count">>
    ELSE IF \E j \in DOMAIN F : rec.read[j].key # F[j].key THEN <<"drift", "folder-order-or-names">>
    ELSE IF \E j \in DOMAIN F : DsOfJson(rec.read[j].rks) # FileDataset(F[j].lines) THEN <<"drift", "folder-dataset">>
    ELSE <<"ok", "folder">>

\* ---------------------------------------------------------------- DatasetSelector
VSelect(rec) ==
    LET Ds == [j \in DOMAIN rec.Ds |-> DsOfJson(rec.Ds[j])] IN
    IF rec.out = "setup-failed" THEN <<"skip", "setup-failed">>
    ELSE IF rec.out # "ok" THEN <<"drift", "selector-fails:" \o rec.out>>
    ELSE IF rec.got # SelectedIdx(Ds, rec.b) THEN <<"drift", "selector">>
    ELSE IF rec.views # 1 THEN <<"drift", "selector-bounds-views">>
    ELSE <<"ok", "selector">>

\* ---------------------------------------------------------------- plain views of a dataset
VDViews(rec) ==
    LET D == DsOfJson(rec.D)  E == 1..rec.ne IN
    IF rec.out = "setup-failed" THEN <<"skip", "setup-failed">>
    ELSE IF rec.out # "ok" THEN <<"drift", "dataset-views-fail:" \o rec.out>>
    ELSE IF \E x \in E : rec.contains[x] # Bool(x \in Universe(D)) THEN <<"drift", "contains_element">>
    ELSE IF \E x \in E : rec.containsE[x] # Bool(x \in Universe(D)) THEN <<"drift", "contains_element-Element">>
    ELSE IF DsOfJson(rec.iter) # D THEN <<"drift", "dataset-iteration">>
    ELSE IF DsOfJson(rec.items) # D THEN <<"drift", "dataset-getitem">>
    ELSE IF rec.name # 1 THEN <<"drift", "dataset-name">>
    ELSE <<"ok", "dataset-views">>

\* ---------------------------------------------------------------- the algorithm factory
VFactory(rec) ==
    IF rec.out # "ok" THEN <<"drift", "factory-fails:" \o rec.out>>
    ELSE IF rec.all # AlgNames THEN <<"drift", "factory-get_all">>
    ELSE IF ToSet(rec.compat) # AnyScheme \/ Len(rec.compat) # Cardinality(AnyScheme) THEN <<"drift", "factory-compatible-list">>
    ELSE IF rec.cls # FactoryClass(rec.name) THEN <<"drift", "factory-class">>
    ELSE IF rec.fresh # 1 THEN <<"drift", "factory-returns-shared-instance">>
    ELSE IF rec.name \in AnyScheme /\ \E j \in DOMAIN rec.relevant : rec.relevant[j] # 1
         THEN <<"drift", "factory-compatible-algorithm-refuses-a-scheme">>
    ELSE IF rec.params # 1 THEN <<"drift", "factory-parameters">>
    ELSE <<"ok", "factory">>

\* ---------------------------------------------------------------- bench_time_consensus on a scripted clock
\* durations and bound in eighths of a second; calls = number of computations observed, total8 = mean * calls * 8
VBench(rec) ==
    LET k == BenchCount(rec.d, rec.lb) IN
    IF rec.out = "setup-failed" THEN <<"skip", "setup-failed">>
    ELSE IF k = -1 THEN (IF rec.out = "exhausted" THEN <<"ok", "bench-script-exhausted">> ELSE <<"drift", "bench-stops-early">>)
    ELSE IF k = 0 THEN (IF rec.out = "ZeroDivisionError" THEN <<"ok", "bench-no-computation">>
                        ELSE <<"drift", "bench-negative-bound">>)
    ELSE IF rec.out # "ok" THEN <<"drift", "bench-fails:" \o rec.out>>
    ELSE IF rec.calls # k THEN <<"drift", "bench-number-of-computations">>
    ELSE IF rec.exact # 1 \/ rec.total8 # SumFirst(rec.d, k) THEN <<"drift", "bench-mean">>
    ELSE IF rec.argsok # 1 THEN <<"drift", "bench-arguments">>
    ELSE <<"ok", "bench">>

Verdict(rec) == CASE rec.kind = "topk" -> VTopK(rec) [] rec.kind = "cviews" -> VCViews(rec)
                  [] rec.kind = "pviews" -> VPViews(rec) [] rec.kind = "elem" -> VElem(rec)
                  [] rec.kind = "fileg" -> VFileG(rec) [] rec.kind = "folder" -> VFolder(rec)
                  [] rec.kind = "select" -> VSelect(rec) [] rec.kind = "dviews" -> VDViews(rec)
                  [] rec.kind = "factory" -> VFactory(rec) [] rec.kind = "bench" -> VBench(rec)

Init == i = 0 /\ verdict = <<"init", "">>
Pick == i = 0 /\ \E j \in DOMAIN Trace : i' = j /\ verdict' = <<"pending", "">>
Eval == /\ i > 0 /\ verdict[1] = "pending" /\ i' = i
        /\ verdict' = Verdict(Trace[i])
        /\ PrintT(<<"V", Trace[i].id, verdict'[1], verdict'[2]>>)
Next == Pick \/ Eval
Spec == Init /\ [][Next]_<<i, verdict>>
AllOk == verdict[1] # "viol"
=============================================================================
