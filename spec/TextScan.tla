------------------------------ MODULE TextScan ------------------------------
(***************************************************************************)
(* The index-based scanner of rankings (utils.parse_ranking_with_ties and  *)
(* the conversions of Ranking.from_string), transcribed with Python's      *)
(* string semantics: find / rfind / slices clamp their bounds and treat    *)
(* negative bounds as offsets from the end; they never fail.  A text is a  *)
(* sequence of one-character strings, indices are 0-based as in the code.  *)
(*                                                                         *)
(* Scan(s) = <<"ok", buckets>> (buckets: sequence of sets of names, a name *)
(* being a sequence of characters) or <<"ValueError", reason>>.  The loop  *)
(* is unfolded with a fuel bounded by the length of the text; theorem      *)
(* Terminates says the fuel is never exhausted, i.e. the scanner has no    *)
(* other outcome than these two (C18: no index error, no hang).            *)
(* The model is more precise than the property (it says WHICH strings are  *)
(* accepted); disagreements with the code on that are reported as drift.   *)
(***************************************************************************)
EXTENDS Naturals, Integers, Sequences, FiniteSets, FiniteSetsExt, TLC

WS == {" ", "\t", "\n"}

Min2_(a, b) == IF a <= b THEN a ELSE b
Max2_(a, b) == IF a >= b THEN a ELSE b
Clamp(i, n) == IF i < 0 THEN Max2_(i + n, 0) ELSE Min2_(i, n)

\* s.find(ch, a, b)
Find(s, ch, a, b) ==
    LET n == Len(s)  lo == Clamp(a, n)  hi == Clamp(b, n)
        c == {i \in lo..(hi - 1) : s[i + 1] = ch}
    IN IF c = {} THEN -1 ELSE Min(c)
FindFrom(s, ch, a) == Find(s, ch, a, Len(s))
RFind(s, ch) == LET c == {i \in 0..(Len(s) - 1) : s[i + 1] = ch} IN IF c = {} THEN -1 ELSE Max(c)

\* s[a:b]
Slice(s, a, b) == LET n == Len(s)  lo == Clamp(a, n)  hi == Clamp(b, n)
                  IN IF lo >= hi THEN <<>> ELSE SubSeq(s, lo + 1, hi)
SliceFrom(s, a) == Slice(s, a, Len(s))

RECURSIVE LStrip(_)
LStrip(s) == IF s # <<>> /\ Head(s) \in WS THEN LStrip(Tail(s)) ELSE s
RECURSIVE RStrip(_)
RStrip(s) == IF s # <<>> /\ s[Len(s)] \in WS THEN RStrip(SubSeq(s, 1, Len(s) - 1)) ELSE s
Strip(s) == RStrip(LStrip(s))

\* s.split(ch): sequence of the segments between occurrences of ch (at least one segment)
RECURSIVE Split(_, _)
Split(s, ch) == LET k == FindFrom(s, ch, 0) IN
                IF k = -1 THEN <<s>> ELSE <<Slice(s, 0, k)>> \o Split(SliceFrom(s, k + 1), ch)

Replace(s) == [k \in DOMAIN s |-> IF s[k] = "{" THEN "[" ELSE IF s[k] = "}" THEN "]" ELSE s[k]]
EndsWith(s, t) == Len(s) >= Len(t) /\ SubSeq(s, Len(s) - Len(t) + 1, Len(s)) = t

\* the body of one bucket: names separated by commas; an empty name is an error
BucketOf(body) == LET parts == Split(body, ",")
                      names == [k \in DOMAIN parts |-> Strip(parts[k])]
                  IN IF \E k \in DOMAIN names : names[k] = <<>> THEN <<"ValueError", {}>>
                     ELSE <<"ok", {names[k] : k \in DOMAIN names}>>

RECURSIVE Loop(_, _, _, _, _, _, _)
Loop(r, st, en, olden, rend, ret, fuel) ==
    IF fuel = 0 THEN <<"fuel-exhausted", ret>>
    ELSE IF st # -1 /\ en # -1 THEN
        LET b == BucketOf(Slice(r, st + 1, en)) IN
        IF b[1] # "ok" THEN <<"ValueError", "empty element">>
        ELSE LET st2 == Find(r, "[", en + 1, rend)
                 en2 == Find(r, "]", Max2_(en + 1, st2 + 1), rend)
             IN Loop(r, st2, en2, en, rend, Append(ret, b[2]), fuel - 1)
    ELSE IF st # en /\ st = -1 THEN <<"ValueError", "missing open bucket">>
    ELSE IF st # en /\ en = -1 THEN <<"ValueError", "missing closing bucket">>
    ELSE IF Slice(r, olden + 1, rend) # <<>> THEN <<"ValueError", "misplaced chars">>
    ELSE <<"ok", ret>>

\* utils.parse_ranking_with_ties
Parse(text) ==
    LET segs == Split(Strip(text), ":")
        r0 == Strip(segs[Len(segs)])
        r  == Replace(r0)
        inner == Slice(r, FindFrom(r, "[", 0) + 1, RFind(r, "]"))
    IN IF Strip(inner) = <<>> \/ EndsWith(r, <<"[", "[", "]", "]">>) THEN <<"ok", <<>>>>
       ELSE LET st == FindFrom(r, "[", FindFrom(r, "[", 0) + 1)
                en == FindFrom(r, "]", 0)
                rend == RFind(r, "]")
            IN IF SliceFrom(r, rend + 1) # <<>> THEN <<"ValueError", "remaining chars at the end">>
               ELSE Loop(r, st, en, en, rend, <<>>, Len(r) + 2)

\* Ranking.from_string: when every name is made of digits the elements become integers ("01" and "1" are the same
\* element); the Ranking constructor refuses an element present in two buckets
Digits == {"0", "1", "2", "3", "4", "5", "6", "7", "8", "9"}
IsDigits(name) == name # <<>> /\ \A k \in DOMAIN name : name[k] \in Digits
RECURSIVE NoLeadingZeros(_)
NoLeadingZeros(name) == IF Len(name) > 1 /\ Head(name) = "0" THEN NoLeadingZeros(Tail(name)) ELSE name
Scan(text) ==
    LET p == Parse(text) IN
    IF p[1] # "ok" THEN p
    ELSE LET allInt == \A k \in DOMAIN p[2] : \A nm \in p[2][k] : IsDigits(nm)
             Key(nm) == IF allInt THEN NoLeadingZeros(nm) ELSE nm
             B == [k \in DOMAIN p[2] |-> {Key(nm) : nm \in p[2][k]}]
         IN IF \E j, k \in DOMAIN B : j # k /\ B[j] \cap B[k] # {} THEN <<"ValueError", "not disjoint">>
            ELSE <<"ok", B>>
=============================================================================
