SPECIFICATION Spec
CONSTANTS NMax = 4
INVARIANT Holds
CHECK_DEADLOCK FALSE
