CONSTANTS NMax = 4
