------------------------------ MODULE PickScan ------------------------------
(***************************************************************************)
(* The scan loop of PickAPerm (pickaperm.py:66-80) as a state machine: the *)
(* input rankings are visited in order with their Kemeny scores; a strictly *)
(* better score restarts the list, an equal score extends it when all the  *)
(* best rankings are requested.  Invariant Prefix: after k rankings the    *)
(* list is what the definition (PickScanDefs!ScanResult) gives for the     *)
(* first k scores - an inductive statement of C10's "minimum ... every     *)
(* minimal input ranking is returned".                                     *)
(***************************************************************************)
EXTENDS PickScanDefs

CONSTANTS ScoreSeqs
VARIABLES sc, one, k, has, best, out
vars == <<sc, one, k, has, best, out>>

Init == sc \in ScoreSeqs /\ one \in BOOLEAN /\ k = 0 /\ has = FALSE /\ best = 0 /\ out = <<>>
Visit == /\ k < Len(sc)
         /\ LET s == sc[k + 1] IN
            IF ~has \/ s < best THEN has' = TRUE /\ best' = s /\ out' = <<k + 1>>
            ELSE IF s = best /\ ~one THEN out' = Append(out, k + 1) /\ UNCHANGED <<has, best>>
            ELSE UNCHANGED <<has, best, out>>
         /\ k' = k + 1 /\ UNCHANGED <<sc, one>>
Spec == Init /\ [][Visit]_vars /\ WF_vars(Visit)

Prefix == out = ScanResult(SubSeq(sc, 1, k), one)
BestIsMin == has => best = MinOf({sc[j] : j \in 1..k})
OneIsOne == one /\ k > 0 => Len(out) = 1
Finishes == <>(k = Len(sc))
=============================================================================
