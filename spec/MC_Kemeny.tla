----------------------------- MODULE MC_Kemeny -----------------------------
(***************************************************************************)
(* Design-level theorems tying the definitions of Kemeny.tla together, so  *)
(* that the trace specifications may use whichever form is cheapest:       *)
(*   ScoreLinear   Score(c,D,B,T) = Counts(c,D) . (B,T)                    *)
(*   ScoreTable    Score(c,D,B,T) = ScoreFromCost(c, Cost(D,B,T,U), U)     *)
(*                 for every bucket order c of the universe                *)
(*   Mirror        before(x,y) = after(y,x), tied(x,y) = tied(y,x)         *)
(*   DPisOpt       OptDP = Opt (subset DP = brute force)                   *)
(* The dataset is built by AddRanking so that TLC's workers share the      *)
(* grid; schemes are drawn from a constant set.                            *)
(***************************************************************************)
EXTENDS Kemeny, Scheme

CONSTANTS N, M, Schemes      \* Schemes: set of <<B, T>>

VARIABLES ds

PR == PartialRankings(1..N)

Init == ds = <<>>
AddRanking(r) == Len(ds) < M /\ ds' = Append(ds, r)
Next == \E r \in PR : AddRanking(r)
Spec == Init /\ [][Next]_ds

U == Universe(ds)
Ready == Len(ds) >= 1 /\ U # {}

ScoreLin(cnt, B, T) ==
    LET fb(s) == cnt[1][s] * B[s]  ft(s) == cnt[2][s] * T[s]
    IN MapThenSumSet(fb, 1..6) + MapThenSumSet(ft, 1..6)

SchemesValid == \A s \in Schemes : Valid(s[1], s[2])

\* candidates: every bucket order of the universe and of the universe plus one foreign element
Cands == AllBucketOrders(U) \cup AllBucketOrders(U \cup {N + 1})

ScoreLinear == Ready => \A s \in Schemes : \A c \in Cands :
                  Score(c, ds, s[1], s[2]) = ScoreLin(Counts(c, ds), s[1], s[2])

ScoreTable == Ready => \A s \in Schemes :
                  LET C == Cost(ds, s[1], s[2], U) IN
                  \A c \in AllBucketOrders(U) : Score(c, ds, s[1], s[2]) = ScoreFromCost(c, C, U)

Mirror == Ready => \A s \in Schemes :
                  LET C == Cost(ds, s[1], s[2], U) IN
                  \A x, y \in U : C[<<x, y>>][1] = C[<<y, x>>][2] /\ C[<<x, y>>][3] = C[<<y, x>>][3]

DPisOpt == Ready => \A s \in Schemes :
                  LET C == Cost(ds, s[1], s[2], U) IN OptDP(C, U) = Opt(C, U)

\* the "no ties" pruning of the optimised exact models: if no pair is strictly cheaper to tie than the mean of its
\* two orders, some optimal consensus has no tie (the pruning must use the threshold 0: see known_findings F17)
NoTiePruningSound == Ready => \A s \in Schemes :
                  LET C == Cost(ds, s[1], s[2], U) IN
                  (\A p \in Pairs(U) : C[p][1] + C[p][2] <= 2 * C[p][3]) =>
                      \E c \in OptSet(C, U) : \A b \in DOMAIN c : Cardinality(c[b]) = 1

\* unit 4: unifying / induced / pseudo-distance with p = 1 and 1/2, extended, and three irregular valid schemes
SchemesQuick == { <<UnifyingB(4, 4), UnifyingT(4, 4)>>, <<UnifyingB(4, 2), UnifyingT(4, 2)>>,
                  <<InducedB(4, 2), InducedT(4, 2)>>, <<PseudoB(4, 2), PseudoT(4, 2)>>,
                  <<ExtendedB(4), ExtendedT(4)>>,
                  <<<<0, 1, 2, 3, 5, 7>>, <<11, 11, 0, 13, 13, 17>>>>,
                  <<<<0, 3, 0, 1, 1, 2>>, <<0, 0, 0, 5, 5, 0>>>>,
                  <<<<0, 1, 1024, 0, 1024, 1048576>>, <<3, 3, 0, 0, 0, 1>>>> }

ASSUME SchemesValid
=============================================================================
