SPECIFICATION Spec
CONSTANTS
  N = 3
  M = 2
  B <- B_uni1
  T <- T_uni1
  Unit = 4
INVARIANT DenseInv
INVARIANT Bookkeeping
INVARIANT DoneIsLocalOpt
INVARIANT CleanPrefix
INVARIANT NeverWorse
PROPERTY Decrease
CHECK_DEADLOCK FALSE
