------------------------------ MODULE Partition ------------------------------
(***************************************************************************)
(* Graph of elements, ParCons partition (strongly connected components in  *)
(* a topological order), ParFront partition (fixpoint of merging           *)
(* consecutive groups that are not linked by robust arcs only), and the    *)
(* consistency relation between an ordered partition and a ranking.        *)
(* All definitions are over a cost table C (Kemeny!Cost) and a universe U. *)
(***************************************************************************)
EXTENDS Kemeny

\* arc x -> y : placing x AFTER y is not a cheapest placement of the pair
Arc(C, x, y)    == x # y /\ C[<<x, y>>][2] > Min3(C[<<x, y>>][1], C[<<x, y>>][2], C[<<x, y>>][3])
\* robust arc: x before y strictly cheaper than both x after y and x tied with y
Robust(C, x, y) == x # y /\ C[<<x, y>>][1] < C[<<x, y>>][2] /\ C[<<x, y>>][1] < C[<<x, y>>][3]

\* reachability (reflexive-transitive closure) by iterating over path length
Reach(C, U) ==
    LET step(R) == [x \in U |-> R[x] \cup UNION {{z \in U : Arc(C, y, z)} : y \in R[x]}]
        RECURSIVE iter(_, _)
        iter(R, k) == IF k = 0 THEN R ELSE iter(step(R), k - 1)
    IN iter([x \in U |-> {x}], Cardinality(U))

SCCs(C, U) == LET R == TLCEval(Reach(C, U)) IN {{y \in U : y \in R[x] /\ x \in R[y]} : x \in U}

Injective(f) == \A a, b \in DOMAIN f : a # b => f[a] # f[b]

\* every linearisation of the condensation: no arc from a later component to an earlier one
TopoOrders(C, U) ==
    LET S == SCCs(C, U) IN
    {o \in [1..Cardinality(S) -> S] : Injective(o) /\
        \A i, j \in DOMAIN o : i < j => ~\E x \in o[j], y \in o[i] : Arc(C, x, y)}

\* a ranking c (bucket order of U) respects an ordered partition o
Respects(o, c) == \A i, j \in DOMAIN o : i < j => \A x \in o[i], y \in o[j] : BIdx(c, x) < BIdx(c, y)

IsOrderedPartition(o, U) ==
    /\ \A i \in DOMAIN o : o[i] # {}
    /\ \A i, j \in DOMAIN o : i # j => o[i] \cap o[j] = {}
    /\ UNION {o[i] : i \in DOMAIN o} = U

Fuse(part, i) == [k \in 1..(Len(part) - 1) |->
                    IF k < i THEN part[k] ELSE IF k = i THEN part[i] \cup part[i + 1] ELSE part[k + 1]]

MustFuse(C, part, i) == \E x \in part[i], y \in part[i + 1] : ~Robust(C, x, y)

\* the intended merge loop: after a merge at i, re-examine the pair (i-1, i); never below the first group
RECURSIVE MergeFrom(_, _, _)
MergeFrom(C, part, i) ==
    IF i >= Len(part) THEN part
    ELSE IF MustFuse(C, part, i) THEN MergeFrom(C, Fuse(part, i), IF i > 1 THEN i - 1 ELSE 1)
    ELSE MergeFrom(C, part, i + 1)
ParFront(C, o) == MergeFrom(C, o, 1)

\* part is obtained from o by merging runs of consecutive groups, order kept
IsConsecutiveCoarsening(part, o) ==
    \E cut \in [1..Len(part) -> 1..Len(o)] :
        /\ \A k \in 1..(Len(part) - 1) : cut[k] < cut[k + 1]
        /\ (Len(part) > 0 => cut[Len(part)] = Len(o))
        /\ \A k \in DOMAIN part :
              part[k] = UNION {o[j] : j \in ((IF k = 1 THEN 0 ELSE cut[k - 1]) + 1)..cut[k]}

FullyRobust(C, part) == \A k \in 1..(Len(part) - 1) : ~MustFuse(C, part, k)

\* the best score over the rankings that respect an ordered partition P: each group solved on its own (subset DP
\* on the restricted table) plus, across groups, the cost of "earlier group before later group".
\* Theorem PartOptThm (MC_Partition): some optimal consensus respects P  iff  PartOpt(C, P) = the optimum.
PartOpt(C, P) == LET inside(g) == OptDP([p \in P[g] \X P[g] |-> C[p]], P[g])
                     across(gh) == BeforeCost(C, P[gh[1]], P[gh[2]])
                 IN MapThenSumSet(inside, DOMAIN P)
                    + MapThenSumSet(across, {gh \in (DOMAIN P) \X (DOMAIN P) : gh[1] < gh[2]})

\* groups that can be all tied at minimal cost (solved trivially by ParCons)
CanBeAllTied(C, S) == \A x, y \in S : x < y => C[<<x, y>>][3] <= Min2(C[<<x, y>>][1], C[<<x, y>>][2])
=============================================================================
