CONSTANTS MaxLen = 4 NR = 3
