----------------------------- MODULE MC_TextScan -----------------------------
(***************************************************************************)
(* Theorems on the scanner model:                                          *)
(*   Terminates   on every string over the alphabet up to MaxLen the loop  *)
(*                ends before its fuel (no outcome but ok / ValueError)    *)
(*   RoundTrip    the scanner reads back every text produced by            *)
(*                TextFormat!Render: same buckets, same names              *)
(***************************************************************************)
EXTENDS TextScan, RankBase

CONSTANTS MaxLen, NR

Alphabet == {"[", "]", "{", "}", ",", ":", " ", "a", "1"}
Strings == UNION {[1..l -> Alphabet] : l \in 0..MaxLen}

Terminates == \A s \in Strings : Scan(s)[1] \in {"ok", "ValueError"}

\* rendering as characters (the token sequences of TextFormat, flattened)
Names == <<<<"1">>, <<"2", "2">>, <<"a", "b">>, <<"x", "1">>>>
Bkt(b, brace, sep) ==
    LET es == SetToSortSeq(b, LAMBDA x, y : x < y)
        RECURSIVE J(_)
        J(k) == IF k > Len(es) THEN <<>> ELSE IF k = Len(es) THEN Names[es[k]] ELSE Names[es[k]] \o sep \o J(k + 1)
    IN <<IF brace THEN "{" ELSE "[">> \o J(1) \o <<IF brace THEN "}" ELSE "]">>
Rnd(r, brace, sep, lead, trail, prefix) ==
    LET RECURSIVE J(_)
        J(k) == IF k > Len(r) THEN <<>> ELSE IF k = Len(r) THEN Bkt(r[k], brace, sep)
                ELSE Bkt(r[k], brace, sep) \o sep \o J(k + 1)
    IN lead \o prefix \o <<"[">> \o J(1) \o <<"]">> \o trail
Seps == {<<",">>, <<",", " ">>}
Leads == {<<>>, <<" ">>, <<"\t">>}
NamePrefixes == {<<>>, <<"r", "1", ":">>, <<"r", " ", "1", " ", ":", " ">>}
RoundTrip == \A r \in PartialRankings(1..NR) : \A brace \in BOOLEAN, sep \in Seps, lead \in Leads, trail \in Leads,
                                                  prefix \in NamePrefixes :
                LET res == Scan(Rnd(r, brace, sep, lead, trail, prefix)) IN
                /\ res[1] = "ok"
                /\ res[2] = [k \in DOMAIN r |-> {Names[x] : x \in r[k]}]

ASSUME Terminates
ASSUME RoundTrip
ASSUME PrintT(<<"strings", Cardinality(Strings)>>)
=============================================================================
