----------------------------- MODULE KemenyAlgo -----------------------------
(***************************************************************************)
(* KemenyComputingFactory.__cost_by_ranking, __mergesortlike and __merge   *)
(* (kemeny_score_computation.py) transcribed: the O(n log n) computation   *)
(* of the pair counters of ONE input ranking against a candidate --        *)
(* prefix sums over the missing elements, runs of equal values inside a    *)
(* sorted bucket, a merge sort that counts inversions and "tied in the     *)
(* candidate, ordered in the input" pairs.                                 *)
(*                                                                         *)
(* Arrays of the code are sequences here (index + 1).  The candidate c is  *)
(* a bucket order; r an input ranking over a subset of its elements.       *)
(* Theorem AlgoIsDef (MC_KemenyAlgo): for every c and r the counters the   *)
(* scheme can see equal Kemeny!Counts, the definition by enumeration of    *)
(* the pairs; the four counters the code never computes (s_1[0], s_2[1],   *)
(* s_2[2], s_2[4]) stay 0 and are multiplied by B[0] = 0, T[2] = 0 or      *)
(* merged with their twin by T[0] = T[1], T[3] = T[4].                     *)
(***************************************************************************)
EXTENDS Kemeny

CId(c, x) == BIdx(c, x) - 1                       \* mapping_elem_consensus_id_bucket
SumSeq(s) == LET f(k) == s[k] IN MapThenSumSet(f, DOMAIN s)

\* the ids of the elements of a bucket, sorted (mergesort of the mapped bucket)
SortedIds(c, bucket) ==
    LET s == SetToSortSeq(bucket, LAMBDA a, b : CId(c, a) < CId(c, b) \/ (CId(c, a) = CId(c, b) /\ a < b))
    IN [k \in DOMAIN s |-> CId(c, s[k])]
RPrime(c, r) == [i \in DOMAIN r |-> SortedIds(c, r[i])]

Missing(c, r) == Dom(c) \ Dom(r)
T3(c, r) == [k \in 1..Len(c) |-> Cardinality(c[k] \cap Missing(c, r))]
\* t_1 = cumsum(0, t_3[:-1]) ; t_2 = len(missing) - cumsum(t_3)
T1(c, r) == LET t3 == T3(c, r) IN [k \in 1..Len(c) |-> SumSeq(SubSeq(t3, 1, k - 1))]
T2(c, r) == LET t3 == T3(c, r) IN [k \in 1..Len(c) |-> Cardinality(Missing(c, r)) - SumSeq(SubSeq(t3, 1, k))]

\* the loop over the runs of equal values of one sorted bucket (cursor is 0-based as in the code)
RECURSIVE RunsFrom(_, _)
RunsFrom(a, cursor) ==
    LET L == Len(a) IN
    IF ~(cursor < L - 1) THEN 0
    ELSE LET RECURSIVE Inner(_, _)
             Inner(cur, rep) == IF cur < L - 1 /\ a[cur + 1] = a[cur + 2] THEN Inner(cur + 1, rep + 1) ELSE <<cur, rep>>
             ir == Inner(cursor, 1)
             nxt == ir[1] + 1
         IN ir[2] * (L - nxt) + RunsFrom(a, nxt)

\* __merge: cursors are 0-based; acc = [res, inv (s_1[1]), tie (s_2[0])]
RECURSIVE Merge(_, _, _, _, _)
Merge(Lf, Rg, cl, cr, acc) ==
    IF cl < Len(Lf) /\ cr < Len(Rg) THEN
        LET nb1 == Lf[cl + 1]  nb2 == Rg[cr + 1] IN
        IF nb1 < nb2 THEN Merge(Lf, Rg, cl + 1, cr, [acc EXCEPT !.res = Append(@, nb1)])
        ELSE IF nb1 > nb2 THEN Merge(Lf, Rg, cl, cr + 1, [acc EXCEPT !.res = Append(@, nb2), !.inv = @ + Len(Lf) - cl])
        ELSE LET RECURSIVE Run(_, _)
                 Run(s, k) == IF k < Len(s) /\ s[k + 1] = nb1 THEN 1 + Run(s, k + 1) ELSE 0
                 c1 == Run(Lf, cl)
                 c2 == Run(Rg, cr)
             IN Merge(Lf, Rg, cl + c1, cr + c2,
                      [res |-> acc.res \o [k \in 1..(c1 + c2) |-> nb1],
                       inv |-> acc.inv + c2 * (Len(Lf) - (cl + c1)),
                       tie |-> acc.tie + c1 * c2])
    ELSE [acc EXCEPT !.res = @ \o SubSeq(Lf, cl + 1, Len(Lf)) \o SubSeq(Rg, cr + 1, Len(Rg))]

\* __mergesortlike(r_prime, left, right): indices 0-based; returns [res, inv, tie] accumulated over the sub-tree
RECURSIVE MSort(_, _, _)
MSort(rp, left, right) ==
    IF Len(rp) = 0 THEN [res |-> <<>>, inv |-> 0, tie |-> 0]
    ELSE IF right <= left THEN [res |-> rp[right + 1], inv |-> 0, tie |-> 0]
    ELSE LET middle == (right - left) \div 2
             begin  == middle + left + 1
             a == MSort(rp, left, middle + left)
             b == MSort(rp, begin, right)
         IN Merge(a.res, b.res, 0, 0, [res |-> <<>>, inv |-> a.inv + b.inv, tie |-> a.tie + b.tie])

\* __cost_by_ranking: <<s_1, s_2>> (six entries each, index + 1)
CostByRanking(c, r) ==
    LET rp == RPrime(c, r)
        t1 == T1(c, r)  t2 == T2(c, r)  t3 == T3(c, r)
        present == Dom(r)
        s13 == LET f(x) == t2[CId(c, x) + 1] IN MapThenSumSet(f, present)
        s14 == LET f(x) == t1[CId(c, x) + 1] IN MapThenSumSet(f, present)
        s12 == LET f(i) == RunsFrom(rp[i], 0) IN MapThenSumSet(f, DOMAIN rp)
        \* loop over the buckets of the candidate: nb_missing_remaining decreases bucket after bucket
        rem(k) == Cardinality(Missing(c, r)) - SumSeq(SubSeq(t3, 1, k))
        s15 == LET f(k) == IF t3[k] > 0 THEN rem(k) * t3[k] ELSE 0 IN MapThenSumSet(f, DOMAIN c)
        s23 == LET f(k) == IF t3[k] > 0 THEN (Cardinality(c[k]) - t3[k]) * t3[k] ELSE 0 IN MapThenSumSet(f, DOMAIN c)
        s25 == LET f(k) == IF t3[k] > 1 THEN (t3[k] * (t3[k] - 1)) \div 2 ELSE 0 IN MapThenSumSet(f, DOMAIN c)
        ms  == MSort(rp, 0, Len(rp) - 1)
    IN << <<0, ms.inv, s12, s13, s14, s15>>, <<ms.tie, 0, 0, s23, 0, s25>> >>

\* the counters of a whole dataset: what get_kemeny_score accumulates
CostByDataset(c, D) ==
    LET one(i) == CostByRanking(c, D[i]) IN
    << [s \in 1..6 |-> LET f(i) == one(i)[1][s] IN MapThenSumSet(f, DOMAIN D)],
       [s \in 1..6 |-> LET f(i) == one(i)[2][s] IN MapThenSumSet(f, DOMAIN D)] >>

\* what a valid scheme can see of the counters
Effective(s1, s2) == << s1[2], s1[3], s1[4], s1[5], s1[6], s2[1] + s2[2], s2[4] + s2[5], s2[6] >>
EffectiveDef(cnt) == << cnt[1][2], cnt[1][3], cnt[1][4], cnt[1][5], cnt[1][6], cnt[2][1], cnt[2][4], cnt[2][6] >>

AlgoIsDef(E) ==
    \A c \in AllBucketOrders(E) : \A r \in PartialRankings(E) :
        LET a == CostByRanking(c, r) IN
        /\ Effective(a[1], a[2]) = EffectiveDef(Counts(c, <<r>>))
        /\ LET m == MSort(RPrime(c, r), 0, Len(r) - 1).res IN \A k \in 1..(Len(m) - 1) : m[k] <= m[k + 1]
=============================================================================
