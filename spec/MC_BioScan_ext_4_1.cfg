SPECIFICATION Spec
CONSTANTS
  N = 4
  M = 1
  B <- B_ext
  T <- T_ext
  Unit = 4
INVARIANT DenseInv
INVARIANT Bookkeeping
INVARIANT DoneIsLocalOpt
INVARIANT CleanPrefix
INVARIANT NeverWorse
PROPERTY Decrease
CHECK_DEADLOCK FALSE
