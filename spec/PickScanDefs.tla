---------------------------- MODULE PickScanDefs ----------------------------
(* What the scan of PickAPerm over the scores of the input rankings delivers: the positions of the minimal scores in
   input order (all of them, duplicates of a ranking included, or only the first one). *)
EXTENDS Integers, Sequences, FiniteSets

MinOf(S) == CHOOSE m \in S : \A x \in S : m <= x
ScanResult(sc, one) ==
    IF sc = <<>> THEN <<>>
    ELSE LET m == MinOf({sc[j] : j \in DOMAIN sc})
             idx == SelectSeq([j \in DOMAIN sc |-> j], LAMBDA j : sc[j] = m)
         IN IF one THEN <<idx[1]>> ELSE idx
=============================================================================
