CONSTANTS M = 4
MaxPos = 3
