SPECIFICATION Spec
CONSTANTS
  N = 3
  M = 2
  B <- B_uni5
  T <- T_uni5
  BackTo = 2
INVARIANT ParFrontThm
CHECK_DEADLOCK FALSE
