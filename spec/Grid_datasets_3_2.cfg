CONSTANTS N = 3 M = 2 What = "datasets"
