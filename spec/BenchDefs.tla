------------------------------ MODULE BenchDefs ------------------------------
(* Definitions shared by the Bench state machine and the trace specification: number of computations made by
   bench_time_consensus on a scripted clock, and the accumulated time. *)
EXTENDS Integers, Sequences

\* ---------------------------------------------------------------- definition: number of computations, total time
RECURSIVE CountFrom(_, _, _, _)
\* -1 when the script ends before the bound is exceeded
CountFrom(s, b, k, acc) == IF acc > b THEN k
                           ELSE IF k >= Len(s) THEN -1
                           ELSE CountFrom(s, b, k + 1, acc + s[k + 1])
BenchCount(s, b) == CountFrom(s, b, 0, 0)
RECURSIVE SumFirst(_, _)
SumFirst(s, k) == IF k = 0 THEN 0 ELSE SumFirst(s, k - 1) + s[k]

=============================================================================
