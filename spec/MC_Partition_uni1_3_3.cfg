SPECIFICATION Spec
CONSTANTS
  N = 3
  M = 3
  B <- B_uni1
  T <- T_uni1
  BackTo = 1
INVARIANT ParConsThm
INVARIANT ParFrontThm
INVARIANT MachineIsDef
INVARIANT PartOptThm
INVARIANT SubSound
PROPERTY Progress
CHECK_DEADLOCK FALSE
