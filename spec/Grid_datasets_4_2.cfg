CONSTANTS N = 4 M = 2 What = "datasets"
