SPECIFICATION Spec
CONSTANTS Scripts <- MCScripts  Bounds <- MCBounds
INVARIANT TypeOK
INVARIANT DoneIsFirst
INVARIANT NoComputation
INVARIANT ExhaustedIsDef
INVARIANT Bounded
PROPERTY Terminates
CHECK_DEADLOCK FALSE
