-------------------------- MODULE Trace_DatasetSeq --------------------------
(***************************************************************************)
(* Trace validation of whole Dataset sessions as BEHAVIOURS of the state   *)
(* machine MC_DatasetSM (the canonical scheme: a cursor l over the logged  *)
(* events; each trace action is "the next event is X, the specification's  *)
(* own action X is taken from the specification's CURRENT state, and the   *)
(* logged post-state is the one the action produces").  Unlike             *)
(* Trace_Dataset, nothing is re-synchronised on the implementation: the    *)
(* state the machine reached after event k is the state event k+1 starts   *)
(* from.  One record = one session on one live object:                     *)
(*   events  << [op, pre, out, post, S, p, q] >>   op = construct |        *)
(*           remove_elements | remove_rate | remove_empty | scribble       *)
(* A session is accepted when the cursor passes its last event; when no    *)
(* trace action is enabled the session is rejected at that event (the      *)
(* longest matched prefix is reported).  What the mutators do is beyond    *)
(* C16 (which speaks about the views): a rejection is MODEL-DRIFT.         *)
(***************************************************************************)
EXTENDS MC_DatasetSM, Json, IOUtils

VARIABLES sid, l, verdict
tvars == <<rk, phase, nops, last, sid, l, verdict>>

Trace == ndJsonDeserialize(IOEnv.TRACE_FILE)
Events == Trace[sid].events
Ev == Events[l]
Post(e) == DsOfJson(e.post)

TInit == /\ sid = 0 /\ l = 0 /\ verdict = "init"
         /\ rk = <<>> /\ phase = "build" /\ nops = 0 /\ last = "none"
\* the rankings the constructor was given (building them ranking by ranking is not logged: AddRanking steps are skipped)
Pick == /\ sid = 0 /\ \E j \in DOMAIN Trace :
              /\ sid' = j /\ l' = 1 /\ verdict' = "running"
              /\ rk' = DsOfJson(Trace[j].events[1].pre)
        /\ UNCHANGED <<phase, nops, last>>

IsEvent(op) == /\ sid > 0 /\ verdict = "running" /\ l <= Len(Events) /\ Ev.op = op
               /\ l' = l + 1 /\ UNCHANGED <<sid, verdict>>
Outcome == (last' = "refused") = (Ev.out # "ok")

TConstruct       == IsEvent("construct") /\ Construct /\ Ev.out = "ok" /\ Post(Ev) = rk'
TConstructRefuse == IsEvent("construct") /\ ~Acceptable(rk) /\ Ev.out # "ok" /\ UNCHANGED <<rk, phase, nops, last>>
TRemoveElements  == IsEvent("remove_elements") /\ RemoveElements(ToSet(Ev.S)) /\ Post(Ev) = rk' /\ Outcome
TRemoveRate      == IsEvent("remove_rate") /\ RemoveRate(<<Ev.p, Ev.q>>) /\ Post(Ev) = rk' /\ Outcome
TRemoveEmpty     == IsEvent("remove_empty") /\ RemoveEmpty /\ Post(Ev) = rk' /\ Outcome
\* the caller modifies its own copies of what the accessors returned: a stuttering step of the machine
TScribble        == IsEvent("scribble") /\ UNCHANGED <<rk, phase, nops, last>> /\ Post(Ev) = rk

Step == TConstruct \/ TConstructRefuse \/ TRemoveElements \/ TRemoveRate \/ TRemoveEmpty \/ TScribble

Accept == /\ sid > 0 /\ verdict = "running" /\ l = Len(Events) + 1
          /\ verdict' = "accepted" /\ PrintT(<<"V", Trace[sid].id, "ok", "behaviour-of-DatasetSM">>)
          /\ UNCHANGED <<rk, phase, nops, last, sid, l>>
Reject == /\ sid > 0 /\ verdict = "running" /\ l <= Len(Events) /\ ~ENABLED Step
          /\ verdict' = "rejected"
          /\ PrintT(<<"V", Trace[sid].id, "drift", "not-a-behaviour-of-DatasetSM-at-event-" \o ToString(l) \o "-" \o Ev.op>>)
          /\ UNCHANGED <<rk, phase, nops, last, sid, l>>

TNext == Pick \/ Step \/ Accept \/ Reject
TraceSpec == TInit /\ [][TNext]_tvars
\* every state the machine goes through while following the implementation is a dataset (the model's own invariant)
LiveIsDatasetT == phase = "live" => IsDataset(rk)
AllOk == verdict # "violated"
=============================================================================
