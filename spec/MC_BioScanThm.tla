--------------------------- MODULE MC_BioScanThm ---------------------------
(***************************************************************************)
(* Theorem DeltaExact: the cumulated entries of the arrays `change` and    *)
(* `add` of the local search are exactly the score differences of the      *)
(* corresponding moves, for every dense vector, element and target.        *)
(* Both sides are LINEAR in the cost table, so the identity is checked on  *)
(* the basis of the mirror-consistent tables (one unordered pair, one of   *)
(* its three placements, cost 1) and thereby holds for EVERY cost table    *)
(* over n <= NMax elements, not only for those of a grid of datasets.      *)
(***************************************************************************)
EXTENDS BioScanDefs
CONSTANT NMax

Mirror(k) == IF k = 1 THEN 2 ELSE IF k = 2 THEN 1 ELSE 3
Basis(n) == { [p \in (1..n) \X (1..n) |->
                 [k \in 1..3 |-> IF p = <<q[1], q[2]>> /\ k = q[3] THEN 1
                                 ELSE IF p = <<q[2], q[1]>> /\ k = Mirror(q[3]) THEN 1 ELSE 0]]
              : q \in {t \in (1..n) \X (1..n) \X (1..3) : t[1] < t[2]} }

DeltaExact(n) ==
    \A v \in AllDense(n) : \A x \in 1..n : \A C \in Basis(n) :
        LET b  == v[x]
            mx == MaxB(v)
            U  == 1..n
            s0 == ScoreK(KeyV(v), C, U)
            cc == CumChange(RawChange(v, x, C), b, mx)
            ca == CumAdd(RawAdd(v, x, C), b, mx)
        IN /\ cc[b] = 0
           /\ \A to \in 0..mx : to # b => cc[to] = ScoreK(KeyV(ChangeF(v, x, to)), C, U) - s0
           /\ \A to \in 0..(mx + 1) :
                 IF Alone(v, x) /\ to \in {b, b + 1} THEN ca[to] = 0
                 ELSE ca[to] = ScoreK(KeyV(AddF(v, x, to)), C, U) - s0

ASSUME \A n \in 1..NMax : DeltaExact(n)
ASSUME PrintT(<<"DeltaExact", [n \in 1..NMax |-> Cardinality(AllDense(n)) * n * Cardinality(Basis(n))]>>)
=============================================================================
