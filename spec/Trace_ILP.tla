------------------------------ MODULE Trace_ILP ------------------------------
(***************************************************************************)
(* Validation of the integer linear programs the CODE builds (C05, steps 3 *)
(* and 4 of the compositional argument).  A record is one captured model:  *)
(*   vars  << <<kind, i, j>> ... >>   kind "x" (i before j) or "t" (tied)  *)
(*   obj   objective coefficient of each variable (integer units)          *)
(*   rows  << << <<variable indices>>, <<coefficients>>, sense, rhs >> >>  *)
(* captured from the PuLP builders and, through the stand-in, from the     *)
(* CPLEX builders.  TLC decides, by enumerating assignments:               *)
(*   structural models: the 0/1 solutions are exactly the encodings of the *)
(*       bucket orders of 0..n-1 (for n <= 3 over ALL 0/1 assignments of   *)
(*       all variables; above, over the 3^(n(n-1)/2) assignments that      *)
(*       satisfy the "exactly one of x_ij, x_ji, t_ij" rows, whose         *)
(*       presence is checked first)                                        *)
(*   models with cost-dependent pruning rows: the minimum of the objective *)
(*       over the solutions equals its minimum over all bucket orders.     *)
(***************************************************************************)
EXTENDS RankBase, Json, IOUtils

VARIABLES i, verdict
Trace == ndJsonDeserialize(IOEnv.TRACE_FILE)

Pairs2(n) == {p \in (0..(n - 1)) \X (0..(n - 1)) : p[1] < p[2]}

RowOK(row, val) ==
    LET lhs == LET f(k) == row[2][k] * val[row[1][k]] IN MapThenSumSet(f, DOMAIN row[1])
    IN CASE row[3] = "E" -> lhs = row[4] [] row[3] = "L" -> lhs <= row[4] [] row[3] = "G" -> lhs >= row[4]

\* value of every variable under a relation assignment rel : pair -> 1 (i before j) / 2 (after) / 3 (tied)
ValOfRel(vars, rel) ==
    [k \in DOMAIN vars |->
        LET kind == vars[k][1]  a == vars[k][2]  b == vars[k][3] IN
        IF kind = "x" THEN (IF a < b THEN (IF rel[<<a, b>>] = 1 THEN 1 ELSE 0) ELSE (IF rel[<<b, a>>] = 2 THEN 1 ELSE 0))
        ELSE (IF rel[IF a < b THEN <<a, b>> ELSE <<b, a>>] = 3 THEN 1 ELSE 0)]

EncOf(c, n) == [p \in Pairs2(n) |-> LET a == BIdx(c, p[1])  b == BIdx(c, p[2])
                                    IN IF a < b THEN 1 ELSE IF a > b THEN 2 ELSE 3]

VarIndex(vars, kind, a, b) == CHOOSE k \in DOMAIN vars : vars[k] = <<kind, a, b>>
HasVars(vars, n) == /\ \A p \in Pairs2(n) : \E k \in DOMAIN vars : vars[k] = <<"t", p[1], p[2]>>
                    /\ \A a, b \in 0..(n - 1) : a # b => \E k \in DOMAIN vars : vars[k] = <<"x", a, b>>
                    /\ Len(vars) = 3 * Cardinality(Pairs2(n))
\* the row  x_ab + x_ba + t_ab = 1  is present for every pair
HasBinaryRows(rec, n) ==
    \A p \in Pairs2(n) :
       \E r \in DOMAIN rec.rows :
          LET row == rec.rows[r] IN
          /\ row[3] = "E" /\ row[4] = 1 /\ Len(row[1]) = 3
          /\ {<<row[1][k], row[2][k]>> : k \in 1..3} =
             {<<VarIndex(rec.vars, "x", p[1], p[2]), 1>>, <<VarIndex(rec.vars, "x", p[2], p[1]), 1>>,
              <<VarIndex(rec.vars, "t", p[1], p[2]), 1>>}

Objective(rec, val) == LET f(k) == rec.obj[k] * val[k] IN MapThenSumSet(f, DOMAIN rec.vars)

Verdict(rec) ==
    LET n      == rec.n
        Orders == AllBucketOrders(0..(n - 1))
        Encs   == {EncOf(c, n) : c \in Orders}
        Rels   == [Pairs2(n) -> {1, 2, 3}]
        Sat(rel) == LET val == TLCEval(ValOfRel(rec.vars, rel)) IN \A r \in DOMAIN rec.rows : RowOK(rec.rows[r], val)
        FeasRel == {rel \in Rels : Sat(rel)}
        \* n <= 3: every 0/1 assignment of every variable, no presumption at all
        AllVals == [DOMAIN rec.vars -> {0, 1}]
        FeasAll == {val \in AllVals : \A r \in DOMAIN rec.rows : RowOK(rec.rows[r], val)}
        EncVals == {ValOfRel(rec.vars, e) : e \in Encs}
        MinOver(S) == Min({Objective(rec, ValOfRel(rec.vars, e)) : e \in S})
    IN IF rec.out # "ok" THEN <<"viol", "C05:ilp-model-not-built">>
       ELSE IF ~HasVars(rec.vars, n) THEN <<"viol", "C05:ilp-variables">>
       ELSE IF rec.structural = 1 /\ n <= 3 THEN
            (IF FeasAll = EncVals THEN <<"ok", "ilp-structural-all-assignments">>
             ELSE <<"viol", "C05:ilp-feasible-set">>)
       ELSE IF ~HasBinaryRows(rec, n) THEN <<"viol", "C05:ilp-binary-rows">>
       ELSE IF rec.structural = 1 THEN
            (IF FeasRel = Encs THEN <<"ok", "ilp-structural">> ELSE <<"viol", "C05:ilp-feasible-set">>)
       ELSE IF ~(FeasRel \subseteq Encs) THEN <<"viol", "C05:ilp-feasible-set">>
       ELSE IF FeasRel = {} THEN <<"viol", "C05:ilp-pruning-infeasible">>
       ELSE IF MinOver(FeasRel) # MinOver(Encs) THEN <<"viol", "C05:ilp-pruning-loses-optimum">>
       ELSE <<"ok", "ilp-pruned">>

Init == i = 0 /\ verdict = <<"init", "">>
Pick == i = 0 /\ \E j \in DOMAIN Trace : i' = j /\ verdict' = <<"pending", "">>
Eval == /\ i > 0 /\ verdict[1] = "pending" /\ i' = i
        /\ verdict' = Verdict(Trace[i])
        /\ PrintT(<<"V", Trace[i].id, verdict'[1], verdict'[2]>>)
Next == Pick \/ Eval
Spec == Init /\ [][Next]_<<i, verdict>>
AllOk == verdict[1] # "viol"
=============================================================================
