SPECIFICATION Spec
CONSTANTS N = 4 Complete = FALSE
INVARIANT TypeOK
INVARIANT DenseInv
INVARIANT CompleteInv
CHECK_DEADLOCK FALSE
