--------------------------- MODULE MC_KemenyAlgo ---------------------------
(* Theorem AlgoIsDef for every candidate over every non-empty subset E of 1..NMax and every input ranking over a  *)
(* subset of E.  One state per subset so that the work is spread over TLC's workers.                              *)
EXTENDS KemenyAlgo
CONSTANT NMax
VARIABLES E, ok
Init == E = {} /\ ok = TRUE
Pick == E = {} /\ \E S \in (SUBSET (1..NMax)) \ {{}} : E' = S /\ ok' = AlgoIsDef(S)
Spec == Init /\ [][Pick]_<<E, ok>>
Holds == ok
=============================================================================
