CONSTANTS N = 3 M = 3 What = "datasets"
