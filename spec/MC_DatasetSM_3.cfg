SPECIFICATION Spec
CONSTANTS N = 3 M = 2 MaxOps = 2
INVARIANT LiveIsDataset
INVARIANT RemoveEmptyIdempotent
INVARIANT UnifiedIsComplete
INVARIANT SubProblemOK
PROPERTY Shrinks
CHECK_DEADLOCK FALSE
