SPECIFICATION Spec
CONSTANTS
  N = 3
  M = 3
  B <- B_ind1
  T <- T_ind1
  Unit = 4
INVARIANT DenseInv
INVARIANT Bookkeeping
INVARIANT DoneIsLocalOpt
INVARIANT CleanPrefix
INVARIANT NeverWorse
PROPERTY Decrease
CHECK_DEADLOCK FALSE
