-------------------------------- MODULE Bench --------------------------------
(***************************************************************************)
(* RankAggAlgorithm.bench_time_consensus (rank_aggregation_algorithm.py:   *)
(* 62-90) as a state machine over a scripted clock.  The script d gives    *)
(* the duration of the k-th computation; the loop computes again while the *)
(* accumulated time does not exceed the lower bound, then returns the mean *)
(* duration.  No listed property talks about it (Extras, section 12 of     *)
(* DESIGN.md).                                                             *)
(*                                                                         *)
(*   test     --(sum <= lb)--> compute --(script has a next duration)-->   *)
(*   test ... --(sum > lb)---> done          (mean = sum / n, n = 0: the   *)
(*   compute  --(script exhausted)--> exhausted          division fails)   *)
(***************************************************************************)
EXTENDS BenchDefs

CONSTANTS Scripts, Bounds
VARIABLES d, lb, sum, n, pc
vars == <<d, lb, sum, n, pc>>

\* ---------------------------------------------------------------- the loop
Init == d \in Scripts /\ lb \in Bounds /\ sum = 0 /\ n = 0 /\ pc = "test"
Test == /\ pc = "test"
        /\ pc' = IF sum <= lb THEN "compute" ELSE "done"
        /\ UNCHANGED <<d, lb, sum, n>>
Compute == /\ pc = "compute" /\ n < Len(d)
           /\ sum' = sum + d[n + 1] /\ n' = n + 1 /\ pc' = "test"
           /\ UNCHANGED <<d, lb>>
Exhausted == /\ pc = "compute" /\ n >= Len(d) /\ pc' = "exhausted"
             /\ UNCHANGED <<d, lb, sum, n>>
Next == Test \/ Compute \/ Exhausted
Spec == Init /\ [][Next]_vars /\ WF_vars(Next)

\* ---------------------------------------------------------------- properties
TypeOK == pc \in {"test", "compute", "done", "exhausted"} /\ n \in 0..Len(d) /\ sum = SumFirst(d, n)
\* the loop stops at the first moment the accumulated time exceeds the bound
DoneIsFirst == pc = "done" => /\ n = BenchCount(d, lb)
                              /\ sum > lb
                              /\ n > 0 => sum - d[n] <= lb
\* no computation at all exactly for a negative bound: the mean is then undefined (ZeroDivisionError in the code)
NoComputation == pc = "done" => (n = 0 <=> lb < 0)
ExhaustedIsDef == pc = "exhausted" => BenchCount(d, lb) = -1
\* with computations that all take time, the number of computations is bounded by the bound
Bounded == (\A k \in DOMAIN d : d[k] >= 1) /\ lb >= 0 => n <= lb + 1
\* the loop terminates (in done or with the script exhausted)
Terminates == <>(pc \in {"done", "exhausted"})
=============================================================================
