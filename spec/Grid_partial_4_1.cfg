CONSTANTS N = 4 M = 1 What = "partial"
