SPECIFICATION Spec
INVARIANT AllOk
CHECK_DEADLOCK FALSE
