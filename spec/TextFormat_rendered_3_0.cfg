CONSTANTS N = 3 What = "rendered" MaxLen = 0
