SPECIFICATION Spec
CONSTANTS NMax = 5
INVARIANT Holds
CHECK_DEADLOCK FALSE
