--------------------------- MODULE MC_LocalSearch ---------------------------
EXTENDS LocalSearch
CONSTANT NMax
ASSUME \A n \in 1..NMax : RenumberingImplementsMove(n)
ASSUME PrintT(<<"dense vectors", [n \in 1..NMax |-> Cardinality(AllDense(n))]>>)
=============================================================================
