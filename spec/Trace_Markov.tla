---------------------------- MODULE Trace_Markov ----------------------------
(***************************************************************************)
(* Trace validation for C20 against MarkovGen.                             *)
(*  op "move": one real step function call from a model-reachable vector   *)
(*  op "walk": every intermediate vector of one real generator run         *)
(*  op "gen" : what the public generators returned                         *)
(* Verdicts: dense numbering after every real step, nobody unranked in     *)
(* complete mode, shape of the delivered rankings/datasets, the only       *)
(* allowed failure.  Equality with the model's successor is drift.         *)
(***************************************************************************)
EXTENDS RankBase, MarkovDefs, Json, IOUtils

VARIABLES i, verdict
Trace == ndJsonDeserialize(IOEnv.TRACE_FILE)

AsFun(seq) == [x \in 1..Len(seq) |-> seq[x]]

VMove(rec) ==
    LET n == Len(rec.v)  c == rec.complete = 1
        w == rec.v  a == rec.after
    IN IF Len(a) # n THEN <<"viol", "C20:vector-length">>
       ELSE IF rec.out # "ok" THEN <<"viol", "C20:step-fails">>
       ELSE IF ~Dense(a) THEN <<"viol", "C20:dense-numbering">>
       ELSE IF c /\ \E x \in 1..n : a[x] < 0 THEN <<"viol", "C20:complete-unranks">>
       ELSE IF a # StepF(w, rec.e + 1, rec.alea, c) THEN <<"drift", "step-differs-from-model">>
       ELSE IF ~c /\ ToSet(rec.missing) # {x - 1 : x \in {y \in 1..n : a[y] = -1}} THEN <<"drift", "missing-set">>
       ELSE <<"ok", "move">>

VWalk(rec) ==
    LET n == rec.n  c == rec.complete = 1
        tr == rec.trace
        Explained(k) == \E e \in 1..n, al \in (IF c THEN 1..4 ELSE 1..5) : StepF(tr[k], e, al, c) = tr[k + 1]
    IN IF rec.out # "ok" THEN <<"viol", "C20:walk-fails">>
       ELSE IF \E k \in DOMAIN tr : Len(tr[k]) # n THEN <<"viol", "C20:vector-length">>
       ELSE IF \E k \in DOMAIN tr : ~Dense(tr[k]) THEN <<"viol", "C20:dense-numbering">>
       ELSE IF c /\ \E k \in DOMAIN tr : \E x \in 1..n : tr[k][x] < 0 THEN <<"viol", "C20:complete-unranks">>
       ELSE IF Len(tr) >= 1 /\ tr[1] # [x \in 1..n |-> x - 1] THEN <<"drift", "initial-vector">>
       ELSE IF \E k \in 1..(Len(tr) - 1) : ~Explained(k) THEN <<"drift", "step-not-a-model-step">>
       ELSE <<"ok", "walk">>

VGen(rec) ==
    LET n == rec.n  m == rec.m  c == rec.complete = 1
        Rk == [k \in DOMAIN rec.rankings |-> RkOfJson(rec.rankings[k])]
        Shape == \A k \in DOMAIN Rk : NoDupJson(rec.rankings[k]) /\ IsRanking(Rk[k])
        Markov == rec.fn \in {"generate_rankings", "markov_dataset"}
        E == IF Markov THEN 0..(n - 1) ELSE 1..n
    IN IF n < 1 \/ m < 1 THEN <<"skip", "outside-grid">>
       ELSE IF rec.out = "EmptyDatasetException" THEN
            (IF rec.fn = "markov_dataset" /\ ~c /\ rec.allempty = 1 THEN <<"ok", "documented-empty">>
             ELSE <<"viol", "C20:undocumented-failure">>)
       ELSE IF rec.out # "ok" THEN <<"viol", "C20:undocumented-failure">>
       ELSE IF ~Shape THEN <<"viol", "C20:buckets">>
       ELSE IF \E k \in DOMAIN Rk : ~(Dom(Rk[k]) \subseteq E) THEN <<"viol", "C20:elements">>
       ELSE IF rec.fn = "generate_rankings" /\ \E k \in DOMAIN Rk : Rk[k] = <<>> THEN <<"viol", "C20:buckets">>
       ELSE IF (c \/ ~Markov) /\ \E k \in DOMAIN Rk : Dom(Rk[k]) # E THEN <<"viol", "C20:complete">>
       ELSE IF (c \/ ~Markov) /\ Len(Rk) # m THEN <<"viol", "C20:number-of-rankings">>
       ELSE IF ~Markov /\ \E k \in DOMAIN Rk : \E b \in DOMAIN Rk[k] : Cardinality(Rk[k][b]) # 1
            THEN <<"viol", "C20:permutation">>
       ELSE IF rec.isds = 1 /\ (c \/ ~Markov) /\ rec.flagc # 1 THEN <<"viol", "C20:complete-flag">>
       ELSE IF rec.isds = 1 /\ ~Markov /\ rec.flagt # 1 THEN <<"viol", "C20:tie-free-flag">>
       ELSE IF rec.isds = 1 /\ rec.nbr # Len(Rk) THEN <<"viol", "C20:number-of-rankings">>
       ELSE <<"ok", "generated">>

\* very large n (beyond what TLC can hold as sets): the harness logs counts only -- number of rankings, of buckets,
\* of empty buckets, total size of the buckets, number of distinct elements, smallest and largest element
VGenBig(rec) ==
    LET n == rec.n  m == rec.m  c == rec.complete = 1 IN
    IF rec.out # "ok" THEN <<"viol", "C20:undocumented-failure">>
    ELSE IF rec.emptybuckets # 0 THEN <<"viol", "C20:buckets">>
    ELSE IF \E k \in DOMAIN rec.sizes : rec.sizes[k] # rec.distinct[k] THEN <<"viol", "C20:buckets">>
    ELSE IF \E k \in DOMAIN rec.sizes : rec.minelem[k] < 0 \/ rec.maxelem[k] > n - 1 THEN <<"viol", "C20:elements">>
    ELSE IF c /\ \E k \in DOMAIN rec.sizes : rec.distinct[k] # n THEN <<"viol", "C20:complete">>
    ELSE IF c /\ Len(rec.sizes) # m THEN <<"viol", "C20:number-of-rankings">>
    ELSE <<"ok", "generated-big">>

Verdict(rec) == CASE rec.op = "move" -> VMove(rec) [] rec.op = "walk" -> VWalk(rec) [] rec.op = "gen" -> VGen(rec)
                  [] rec.op = "genbig" -> VGenBig(rec)

Init == i = 0 /\ verdict = <<"init", "">>
Pick == i = 0 /\ \E j \in DOMAIN Trace : i' = j /\ verdict' = <<"pending", "">>
Eval == /\ i > 0 /\ verdict[1] = "pending" /\ i' = i
        /\ verdict' = Verdict(Trace[i])
        /\ PrintT(<<"V", Trace[i].id, verdict'[1], verdict'[2]>>)
Next == Pick \/ Eval
Spec == Init /\ [][Next]_<<i, verdict>>
AllOk == verdict[1] # "viol"
=============================================================================
