-------------------------------- MODULE Grid --------------------------------
(***************************************************************************)
(* The small-scope input spaces, enumerated by TLC and exported as JSON    *)
(* lines for the harness to concretise (so that no enumerator of bucket    *)
(* orders lives on the Python side).                                       *)
(*   G(N, M): all datasets of 1..M partial rankings over 1..N with a       *)
(*            non-empty universe (empty rankings, ties, incompleteness     *)
(*            and duplicates included).                                    *)
(*   the set of all bucket orders / partial rankings over 1..K.            *)
(***************************************************************************)
EXTENDS RankBase, Json, IOUtils

CONSTANTS N, M, What

RkJson(r) == [i \in DOMAIN r |-> SetToSortSeq(r[i], LAMBDA a, b : a < b)]
DsJson(D) == [i \in DOMAIN D |-> RkJson(D[i])]

PR == PartialRankings(1..N)
Datasets == {D \in UNION {[1..m -> PR] : m \in 1..M} : Universe(D) # {}}

Out == IOEnv.OUT_FILE

Export ==
    CASE What = "datasets" -> ndJsonSerialize(Out, SetToSeq({DsJson(D) : D \in Datasets}))
      [] What = "orders"   -> ndJsonSerialize(Out, SetToSeq({RkJson(r) : r \in AllBucketOrders(1..N)}))
      [] What = "partial"  -> ndJsonSerialize(Out, SetToSeq({RkJson(r) : r \in PR}))

ASSUME Export
=============================================================================
