CONSTANTS N = 3 What = "theorems_small" MaxLen = 0
