----------------------------- MODULE Trace_Kwik -----------------------------
(***************************************************************************)
(* Trace validation of real KwikSort runs under a controlled pivot chooser *)
(* (C11; clause "all random pivot draws" of C03).  One record = one        *)
(* complete run: the logged (group, pivot) of every recursion step and the *)
(* returned consensus.                                                     *)
(***************************************************************************)
EXTENDS KwikSortDefs, Scheme, Json, IOUtils

VARIABLES i, verdict
Trace == ndJsonDeserialize(IOEnv.TRACE_FILE)
Aux   == JsonDeserialize(IOEnv.AUX_FILE)
Prop  == Aux.prop

Verdict(rec) ==
    LET D == DsOfJson(rec.D)
        U == Universe(D)
        B == rec.sch[1]  T == rec.sch[2]
        C == Cost(D, B, T, U)
        K == [k \in DOMAIN rec.K |-> RkOfJson(rec.K[k])]
        WF == /\ rec.out = "consensus" /\ Len(rec.K) = 1
              /\ NoDupJson(rec.K[1]) /\ IsRanking(K[1]) /\ Dom(K[1]) = U
        StepOK(s) == LET G == ToSet(rec.steps[s][1])  p == rec.steps[s][2] IN
                     \A x \in G \ {p} : Rel(K[1], x, p) = Pref(C, x, p)
        \* drift level: the logged groups are the groups of the model's recursion
        GroupsOK == /\ Len(rec.steps) >= 1 /\ ToSet(rec.steps[1][1]) = U
                    /\ \A s \in DOMAIN rec.steps :
                         LET G == ToSet(rec.steps[s][1])  p == rec.steps[s][2] IN
                         /\ p \in G
                         /\ \A S \in {Before(C, G, p), After(C, G, p)} :
                               Cardinality(S) >= 2 => \E t \in DOMAIN rec.steps : t > s /\ ToSet(rec.steps[t][1]) = S
    IN IF ~IsDataset(D) \/ ~Valid(B, T) THEN <<"skip", "input-outside-domain">>
       ELSE IF Prop = "C03" THEN
            (IF rec.out # "consensus" THEN <<"skip", rec.out>>
             ELSE IF ~WF THEN <<"viol", "C03:kwiksort-pivot-schedule">> ELSE <<"ok", "wellformed">>)
       ELSE IF rec.out # "consensus" THEN <<"viol", "C11:fails">>
       ELSE IF ~WF THEN <<"viol", "C11:malformed">>
       ELSE IF \E s \in DOMAIN rec.steps : ~StepOK(s) THEN <<"viol", "C11:placement-relative-to-pivot">>
       ELSE IF Coherent(C, U) /\ K[1] \notin CoherentRankings(C, U) THEN <<"viol", "C11:pivot-independence">>
       ELSE IF rec.identical = 1 /\ B[3] > 0 /\ T[1] > 0 /\ K[1] # D[1] THEN <<"viol", "C11:identical-rankings-unchanged">>
       ELSE IF ~GroupsOK THEN <<"drift", "recursion-groups-differ-from-model">>
       ELSE <<"ok", "kwiksort">>

Init == i = 0 /\ verdict = <<"init", "">>
Pick == i = 0 /\ \E j \in DOMAIN Trace : i' = j /\ verdict' = <<"pending", "">>
Eval == /\ i > 0 /\ verdict[1] = "pending" /\ i' = i
        /\ verdict' = Verdict(Trace[i])
        /\ PrintT(<<"V", Trace[i].id, verdict'[1], verdict'[2]>>)
Next == Pick \/ Eval
Spec == Init /\ [][Next]_<<i, verdict>>
AllOk == verdict[1] # "viol"
=============================================================================
