CONSTANTS N = 3 M = 1 What = "orders"
