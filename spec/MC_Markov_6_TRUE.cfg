SPECIFICATION Spec
CONSTANTS N = 6 Complete = TRUE
INVARIANT TypeOK
INVARIANT DenseInv
INVARIANT CompleteInv
CHECK_DEADLOCK FALSE
