------------------------------ MODULE MC_Extras ------------------------------
(***************************************************************************)
(* Theorems on the definitions of Extras, checked on every partial ranking *)
(* over N elements, every k in -1..N+2:                                    *)
(*   LoopIsDef      the bucket loop of topk_ranking computes TopKDef       *)
(*   Bounded        at most k elements; everything once k >= n             *)
(*   Monotone       top-k grows with k                                     *)
(*   Unambiguous    every element of the top-k is strictly before every    *)
(*                  other element of the ranking                           *)
(*   Maximal        the next whole bucket would not fit                    *)
(*   Order          the element order is a strict total order per type,    *)
(*                  lexicographic order on code points for names           *)
(*   Views          which-index / same-group agree with the groups         *)
(***************************************************************************)
EXTENDS Extras, TLC

CONSTANTS N

Rks == PartialRankings(1..N)
Ks == -1..(N + 2)

LoopIsDef == \A r \in Rks, k \in Ks : TopKLoop(r, k) = TopKDef(r, k)
Bounded == \A r \in Rks, k \in Ks : /\ Cardinality(TopKDef(r, k)) <= (IF k < 0 THEN 0 ELSE k)
                                     /\ k >= NbElements(r) => TopKDef(r, k) = Dom(r)
                                     /\ TopKDef(r, k) \subseteq Dom(r)
Monotone == \A r \in Rks, k \in Ks : k + 1 \in Ks => TopKDef(r, k) \subseteq TopKDef(r, k + 1)
Unambiguous == \A r \in Rks, k \in Ks : \A x \in TopKDef(r, k), y \in Dom(r) \ TopKDef(r, k) : BIdx(r, x) < BIdx(r, y)
Maximal == \A r \in Rks, k \in Ks :
             LET T == TopKDef(r, k) IN
             T # Dom(r) /\ k >= 0 =>
                LET nxt == CHOOSE b \in DOMAIN r : /\ r[b] \cap T = {}
                                                   /\ \A c \in DOMAIN r : r[c] \cap T = {} => b <= c
                IN Cardinality(T) + Cardinality(r[nxt]) > k

\* element order
Chars == {48, 49, 97}
Strs == UNION {[1..l -> Chars] : l \in 0..2}
Vals == {[t |-> "int", v |-> i] : i \in -1..2} \cup {[t |-> "str", v |-> s] : s \in Strs}
Order == /\ \A a, b \in Vals : SameType(a, b) => (ElemLt(a, b) \/ ElemLt(b, a) \/ ElemEq(a, b))
         /\ \A a, b \in Vals : SameType(a, b) => ~(ElemLt(a, b) /\ ElemLt(b, a))
         /\ \A a \in Vals : ~ElemLt(a, a)
         /\ \A a, b, c \in Vals : SameType(a, b) /\ SameType(b, c) /\ ElemLt(a, b) /\ ElemLt(b, c) => ElemLt(a, c)
         /\ \A a, b \in Vals : CmpLe(a, b) = "T" <=> (SameType(a, b) /\ ~ElemLt(b, a))

\* partition views
Parts == {P \in AllBucketOrders(1..N) \cup UNION {AllBucketOrders(S) : S \in SUBSET (1..N)} : TRUE}
Views == \A P \in Parts :
           /\ IsOrderedPartition(P)
           /\ \A e \in 1..N : (WhichIndex(P, e) >= 0) <=> e \in PElements(P)
           /\ \A e \in PElements(P) : e \in P[WhichIndex(P, e) + 1]
           /\ \A a, b \in 1..N : SameGroup(P, a, b) <=> \E i \in DOMAIN P : {a, b} \subseteq P[i]
           /\ \A a, b \in 1..N : SameGroupCode(P, a, b) = "KeyError" <=> a \notin PElements(P)

\* selection: a subsequence, exactly the fitting datasets, idempotent
Bnds == {[emin |-> a, emax |-> b, rmin |-> c, rmax |-> d] : a \in {0, 2}, b \in {1, 2}, c \in {0, 2}, d \in {1, 5}}
Lists == {<<D1, D2, D3>> : D1, D2, D3 \in {<<<<{1}>>>>, <<<<{1}, {2}>>, <<{2}>>>>, <<<<>>, <<{1, 2}>>>>}}
Selection == \A L \in Lists, b \in Bnds :
                LET S == SelectedIdx(L, b) IN
                /\ \A j \in 1..3 : (j \in ToSet(S)) <=> Fits(L[j], b)
                /\ \A x, y \in DOMAIN S : x < y => S[x] < S[y]

ASSUME Selection
ASSUME LoopIsDef
ASSUME Bounded
ASSUME Monotone
ASSUME Unambiguous
ASSUME Maximal
ASSUME Order
ASSUME Views
=============================================================================
