SPECIFICATION Spec
CONSTANTS N = 5 Complete = TRUE
INVARIANT TypeOK
INVARIANT DenseInv
INVARIANT CompleteInv
CHECK_DEADLOCK FALSE
