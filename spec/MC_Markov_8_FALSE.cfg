SPECIFICATION Spec
CONSTANTS N = 8 Complete = FALSE
INVARIANT TypeOK
INVARIANT DenseInv
INVARIANT DenseAltInv
INVARIANT CompleteInv
CHECK_DEADLOCK FALSE
