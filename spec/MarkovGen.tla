------------------------------ MODULE MarkovGen ------------------------------
(***************************************************************************)
(* The Markov chain of the random ranking generator (C20).  The state is   *)
(* the vector of bucket ids: v[e] = id of the bucket of element e, -1 when *)
(* e is not ranked (v is a sequence: element e of the code is index e+1).  *)
(* One step picks an element and one of the moves; guards and effects are  *)
(* transcribed from Ranking.__add_left ... __put_element_first and the two *)
(* step functions.  Invariant: the used bucket ids are exactly 0..max      *)
(* (dense numbering) -- otherwise the final conversion builds an empty     *)
(* bucket; in complete mode nobody is ever unranked.                       *)
(***************************************************************************)
EXTENDS MarkovDefs

CONSTANTS N, Complete

VARIABLES v
Elem == 1..N

Aleas == IF Complete THEN 1..4 ELSE 1..5

Init == v = [x \in Elem |-> x - 1]
Step(e, a) == v' = StepF(v, e, a, Complete)
Next == \E e \in Elem, a \in Aleas : Step(e, a)
Spec == Init /\ [][Next]_v

TypeOK      == v \in [Elem -> -1..(N - 1)]
DenseInv    == Dense(v)
CompleteInv == Complete => \A e \in Elem : Ranked(v, e)
\* the two formulations of dense numbering agree on EVERY vector (checked for N <= 5; the second one is the one the
\* symbolic checker can handle, MC_MarkovApa.tla)
ASSUME N <= 5 => \A w \in [Elem -> (-1)..(N - 1)] : Dense(w) = DenseAlt(w)
DenseAltInv == DenseAlt(v)
=============================================================================
