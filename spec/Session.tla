------------------------------- MODULE Session -------------------------------
(***************************************************************************)
(* A session of non-mutating API calls on SHARED Dataset and ScoringScheme *)
(* objects (C15).  The abstract state of the inputs is `inputs`; `hist` is *)
(* the sequence of calls made so far and `memo` remembers the result of    *)
(* each deterministic call.  The specification says:                       *)
(*    - no call of the session changes `inputs`                            *)
(*    - a deterministic call repeated in a session returns memo[call]      *)
(* Mutators (in-place removals) are part of a session: they DO change the   *)
(* inputs, and from then on the results are those of the new inputs (the    *)
(* memo is forgotten); every other call must leave the inputs as the last   *)
(* mutator left them.                                                      *)
(* Results themselves are left abstract here (they are specified by the    *)
(* other modules); the state machine is used to ENUMERATE every history of *)
(* at most MaxLen calls (Gen configuration: hist is part of the state, so  *)
(* TLC's reachable states are exactly the histories) which the harness     *)
(* replays on one pair of live objects.                                    *)
(***************************************************************************)
EXTENDS Naturals, Sequences, FiniteSets, TLC

CONSTANTS Calls, Random, Mutators, MaxLen   \* Random: calls whose result may legitimately vary; Mutators: in-place modifiers

VARIABLES inputs, hist, memo
vars == <<inputs, hist, memo>>

Init == inputs = <<>> /\ hist = <<>> /\ memo = [c \in {} |-> 0]      \* inputs: the mutators applied so far
\* the result of a call is a function of the inputs only (abstractly: a token)
ResultOf(c, inp) == <<c, inp>>
Call(c) == /\ Len(hist) < MaxLen
           /\ hist' = Append(hist, c)
           /\ IF c \in Mutators
              THEN inputs' = Append(inputs, c) /\ memo' = [d \in {} |-> 0]
              ELSE /\ inputs' = inputs                   \* the library must behave like this
                   /\ memo' = IF c \in Random \/ c \in DOMAIN memo THEN memo
                              ELSE [d \in DOMAIN memo \cup {c} |-> IF d = c THEN ResultOf(c, inputs) ELSE memo[d]]
Next == \E c \in Calls : Call(c)
Spec == Init /\ [][Next]_vars

NoMutation    == [][Len(hist') > Len(hist) /\ hist'[Len(hist')] \notin Mutators => inputs' = inputs]_vars
Repeatable    == \A c \in DOMAIN memo : memo[c] = ResultOf(c, inputs)
=============================================================================
