------------------------------- MODULE Session -------------------------------
(***************************************************************************)
(* A session of non-mutating API calls on SHARED Dataset and ScoringScheme *)
(* objects (C15).  The abstract state of the inputs is `inputs`; `hist` is *)
(* the sequence of calls made so far and `memo` remembers the result of    *)
(* each deterministic call.  The specification says:                       *)
(*    - no call of the session changes `inputs`                            *)
(*    - a deterministic call repeated in a session returns memo[call]      *)
(* Results themselves are left abstract here (they are specified by the    *)
(* other modules); the state machine is used to ENUMERATE every history of *)
(* at most MaxLen calls (Gen configuration: hist is part of the state, so  *)
(* TLC's reachable states are exactly the histories) which the harness     *)
(* replays on one pair of live objects.                                    *)
(***************************************************************************)
EXTENDS Naturals, Sequences, FiniteSets, TLC

CONSTANTS Calls, Random, MaxLen      \* Random \subseteq Calls: calls whose result may legitimately vary

VARIABLES inputs, hist, memo
vars == <<inputs, hist, memo>>

Init == inputs = "D0" /\ hist = <<>> /\ memo = [c \in {} |-> 0]
\* the result of a call is a function of the inputs only (abstractly: a token)
ResultOf(c, inp) == <<c, inp>>
Call(c) == /\ Len(hist) < MaxLen
           /\ hist' = Append(hist, c)
           /\ inputs' = inputs                           \* the library must behave like this
           /\ memo' = IF c \in Random \/ c \in DOMAIN memo THEN memo
                      ELSE [d \in DOMAIN memo \cup {c} |-> IF d = c THEN ResultOf(c, inputs) ELSE memo[d]]
Next == \E c \in Calls : Call(c)
Spec == Init /\ [][Next]_vars

NoMutation    == [][inputs' = inputs]_vars
Repeatable    == \A c \in DOMAIN memo : memo[c] = ResultOf(c, "D0")
=============================================================================
