SPECIFICATION Spec
CONSTANTS N = 7 Complete = FALSE
INVARIANT TypeOK
INVARIANT DenseInv
INVARIANT CompleteInv
CHECK_DEADLOCK FALSE
