----------------------------- MODULE LocalSearch -----------------------------
(***************************************************************************)
(* The BioConsert local search as a step machine over dense bucket-id      *)
(* vectors (r[x] = 0-based id of the bucket of element x; elements are     *)
(* 1..n here, 0..n-1 in the code).                                         *)
(*                                                                         *)
(* A move of element e is                                                  *)
(*    Change(e, to)  e joins the existing bucket `to`                      *)
(*    Add(e, to)     e becomes a new singleton bucket inserted at id `to`  *)
(* ChangeF / AddF transcribe the in-place renumbering of _change_bucket /  *)
(* _add_bucket (bioconsert.py); theorem RenumberingImplementsMove says     *)
(* they realise exactly the abstract move (LocalSearchDefs keys) and keep  *)
(* the numbering dense, for every dense vector, element and target.        *)
(* The search takes ANY move that gains more than the threshold (the code  *)
(* takes the first one it finds in a fixed scan order: one behaviour of    *)
(* this machine) and stops when there is none.                             *)
(***************************************************************************)
EXTENDS LocalSearchDefs

Size(r, b)   == Cardinality({x \in DOMAIN r : r[x] = b})
MaxB(r)      == Max({r[x] : x \in DOMAIN r})
DenseV(r)    == {r[x] : x \in DOMAIN r} = 0..MaxB(r)
Alone(r, e)  == Size(r, r[e]) = 1

\* _change_bucket(r, n, element, old_pos, new_pos, alone)
ChangeF(r, e, to) ==
    LET old == r[e]  al == Alone(r, e)
        r1 == [r EXCEPT ![e] = to]
    IN IF al THEN [x \in DOMAIN r |-> IF r1[x] > old THEN r1[x] - 1 ELSE r1[x]] ELSE r1

\* _add_bucket(r, n, element, old_pos, new_pos, alone)
AddF(r, e, to) ==
    LET old == r[e]  al == Alone(r, e) IN
    IF old < to THEN
        (IF al THEN [[x \in DOMAIN r |-> IF old < r[x] /\ r[x] < to THEN r[x] - 1 ELSE r[x]] EXCEPT ![e] = to - 1]
         ELSE [[x \in DOMAIN r |-> IF r[x] >= to THEN r[x] + 1 ELSE r[x]] EXCEPT ![e] = to])
    ELSE
        (IF al THEN [[x \in DOMAIN r |-> IF to <= r[x] /\ r[x] < old THEN r[x] + 1 ELSE r[x]] EXCEPT ![e] = to]
         ELSE [[x \in DOMAIN r |-> IF r[x] >= to THEN r[x] + 1 ELSE r[x]] EXCEPT ![e] = to])

\* the bucket order denoted by a vector / by a key function
OrderOf(r) == FromKey(r)

\* abstract moves on keys 2*(id+1): join bucket `to` = key 2*(to+1); new bucket at id `to` = key 2*(to+1) - 1
KeyV(r) == [x \in DOMAIN r |-> 2 * (r[x] + 1)]
JoinKey(r, e, to) == [KeyV(r) EXCEPT ![e] = 2 * (to + 1)]
NewKey(r, e, to)  == [KeyV(r) EXCEPT ![e] = 2 * (to + 1) - 1]

AllDense(n) == {r \in [1..n -> 0..(n - 1)] : DenseV(r)}

RenumberingImplementsMove(n) ==
    \A r \in AllDense(n) : \A e \in 1..n :
        /\ \A to \in 0..MaxB(r) : to # r[e] =>
              /\ DenseV(ChangeF(r, e, to))
              /\ OrderOf(ChangeF(r, e, to)) = FromKey(JoinKey(r, e, to))
        /\ \A to \in 0..(MaxB(r) + 1) :
              \* a lone element re-inserted at its own place or just after it is the identity: the code never does it
              ~(Alone(r, e) /\ to \in {r[e], r[e] + 1}) =>
              /\ DenseV(AddF(r, e, to))
              /\ OrderOf(AddF(r, e, to)) = FromKey(NewKey(r, e, to))
=============================================================================
