SPECIFICATION Spec
CONSTANTS ScoreSeqs <- MCSeqs
INVARIANT Prefix
INVARIANT BestIsMin
INVARIANT OneIsOne
PROPERTY Finishes
CHECK_DEADLOCK FALSE
