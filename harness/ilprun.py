"""Capture the integer linear programs the library builds (PuLP builders directly; CPLEX builders through the
stand-in) and hand them to TLC (spec/Trace_ILP.tla)."""
from . import core

_impl = {}


def init(aux=None):
    core.import_impl()
    import corankco.algorithms.exact.exactalgorithmcplex  # noqa
    from corankco.dataset import Dataset
    from corankco.scoringscheme import ScoringScheme
    _impl.update(Dataset=Dataset, SS=ScoringScheme)


def _var(name):
    kind, a, b = name.split("_")
    return [kind, int(a), int(b)]


def _model_record(n, names, obj, rows, senses, rhs, unit, structural, src):
    idx = {nm: k + 1 for k, nm in enumerate(names)}
    exact = True
    objs = []
    for o in obj:
        u, ex = core.to_units(o, unit)
        exact = exact and ex
        objs.append(u)
    rws = []
    for (vs, cs), s, r in zip(rows, senses, rhs):
        if any(float(c) != int(c) for c in cs) or float(r) != int(r):
            exact = False
        rws.append([[idx[v] for v in vs], [int(c) for c in cs], s, int(r)])
    return {"n": n, "vars": [_var(nm) for nm in names], "obj": objs, "rows": rws, "structural": structural,
            "src": src, "out": "ok" if exact else "inexact"}


def run_ilp(case):
    """-> {"id", "models": [records]}"""
    from . import standin_cplex
    am = core.Absmap(case["naming"], case["D"])
    B, T, unit = case["sch"]
    src = case["src"]
    out = []
    try:
        ds = _impl["Dataset"].from_raw_list(am.raw_dataset(case["D"]), name="study")     # every dataset of a process bears the same name (two files with one base name)
        ss = _impl["SS"](core.scheme_float(B, T, unit))
        n = ds.nb_elements
        if src.startswith("pulp"):
            import pulp
            from corankco.algorithms.exact.exactalgorithmpulp import ExactAlgorithmPulp as EP
            graph, cost = EP.graph_of_elements(ds.get_positions(), ss)
            vals, vars_ = [], []
            h = EP._add_pulp_variables(n, vals, vars_, cost)
            prob = pulp.LpProblem("captured", pulp.LpMinimize)
            EP._add_binary_constraints(n, prob, vars_, h)
            EP._add_transitivity_constraints(n, prob, vars_, h)
            if src == "pulp_pruned":
                EP._add_personal_optimization_constraints(prob, vars_, h, graph, cost)
            names = [v.name for v in vars_]
            rows, senses, rhs = [], [], []
            for c in prob.constraints.values():
                rows.append(([v.name for v in c.keys()], [float(x) for x in c.values()]))
                senses.append({0: "E", -1: "L", 1: "G"}[c.sense])
                rhs.append(-c.constant)
            out.append(_model_record(n, names, vals, rows, senses, rhs, unit, 0 if src == "pulp_pruned" else 1, src))
        else:
            from corankco.algorithms.exact.exactalgorithmcplex import ExactAlgorithmCplex
            from corankco.algorithms.exact.exactalgorithmcplexforpaperoptim1 import ExactAlgorithmCplexForPaperOptim1
            standin_cplex.install()
            del standin_cplex.CAPTURE[:]
            try:
                alg = {"cplex_noopt": lambda: ExactAlgorithmCplex(optimize=False),
                       "cplex_opt": lambda: ExactAlgorithmCplex(optimize=True),
                       "optim1": lambda: ExactAlgorithmCplexForPaperOptim1()}[src]()
                alg.compute_consensus_rankings(ds, ss, True)
            finally:
                standin_cplex.uninstall()
            for m in standin_cplex.CAPTURE:
                nn = 0
                for nm in m["names"]:
                    _, a, b = nm.split("_")
                    nn = max(nn, int(a) + 1, int(b) + 1)
                out.append(_model_record(nn, m["names"], m["obj"], m["rows"], m["senses"], m["rhs"], unit,
                                         1 if src == "cplex_noopt" else 0, src))
            del standin_cplex.CAPTURE[:]
    except Exception as ex:
        out.append({"n": 0, "vars": [], "obj": [], "rows": [], "structural": 1, "src": src,
                    "out": "error:" + type(ex).__name__})
    for r in out:
        r["D"] = case["D"]
        r["sch"] = case["sch"]
    return {"id": case["id"], "models": out}


def flatten(records):
    out = []
    for r in records:
        for k, m in enumerate(r["models"]):
            m = dict(m)
            m["id"] = r["id"] * 32 + k
            out.append(m)
    return out
