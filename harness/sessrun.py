"""Sessions of non-mutating calls on shared Dataset / ScoringScheme objects (C15)."""
import random

from . import core
from .datarun import NameMap

_impl = {}


def init(aux=None):
    core.import_impl()
    from corankco.dataset import Dataset
    from corankco.ranking import Ranking
    from corankco.scoringscheme import ScoringScheme
    from corankco.kemeny_score_computation import KemenyComputingFactory
    from corankco.algorithms.pairwisebasedalgorithm import PairwiseBasedAlgorithm
    from corankco.partitioning.ordered_partition import OrderedPartition
    from corankco.algorithms.borda.borda import BordaCount
    from corankco.algorithms.copeland.copeland import CopelandMethod
    from corankco.algorithms.bioconsert.bioconsert import BioConsert
    from corankco.algorithms.bioconsert.bioco import BioCo
    from corankco.algorithms.kwiksort.kwiksortrandom import KwikSortRandom
    from corankco.algorithms.pickaperm.pickaperm import PickAPerm
    from corankco.algorithms.parcons.parcons import ParCons
    from corankco.algorithms.exact.exactalgorithm import ExactAlgorithm
    _impl.update(Dataset=Dataset, Ranking=Ranking, SS=ScoringScheme, K=KemenyComputingFactory,
                 P=PairwiseBasedAlgorithm, OP=OrderedPartition,
                 algs={"borda": BordaCount, "copeland": CopelandMethod, "bioconsert": BioConsert, "bioco": BioCo,
                       "kwiksort": KwikSortRandom, "pickaperm": PickAPerm, "parcons": ParCons, "exact": ExactAlgorithm,
                       "bio2": lambda: BioConsert([BordaCount(), CopelandMethod()])},
                 Consensus=__import__("corankco.consensus", fromlist=["Consensus"]).Consensus)


class Ids:
    """object identities as small ordinals (order of first appearance)"""

    def __init__(self):
        self.m = {}

    def __call__(self, obj):
        return self.m.setdefault(id(obj), len(self.m))


def snapshot(ds, ss, nm, ids):
    def el(e):
        return [nm.elem(e), "int" if e.type is int else "str"]
    abs_ = {"rk": [[sorted(nm.elem(e) for e in b) for b in r.buckets] for r in ds.rankings],
            "uni": sorted(nm.elem(e) for e in ds.universe),
            "e2i": sorted([nm.elem(e), int(i)] for e, i in ds.mapping_elem_id.items()),
            "i2e": sorted([int(i), nm.elem(e)] for i, e in ds.mapping_id_elem.items()),
            "complete": 1 if ds.is_complete else 0, "noties": 1 if ds.without_ties else 0, "name": str(ds.name),
            "pen": [[int(round(x * 1024)) for x in v] for v in ss.penalty_vectors]}
    deep = {"rankings_list": ids(ds._rankings),
            "rk": [{"obj": ids(r), "buckets_list": ids(r._buckets),
                    "buckets": [[ids(b), sorted(el(e) for e in b)] for b in r._buckets],
                    "positions_obj": ids(r._positions),
                    "positions": sorted([el(e), int(p)] for e, p in r._positions.items())} for r in ds._rankings],
            "e2i_obj": ids(ds._mapping_element_id), "i2e_obj": ids(ds._mapping_id_element),
            "e2i_order": [nm.elem(e) for e in ds._mapping_element_id],
            "pen_obj": [ids(ss._penalty_vectors), ids(ss._penalty_vectors[0]), ids(ss._penalty_vectors[1])],
            "pen_types": [[type(x).__name__ for x in v] for v in ss._penalty_vectors]}
    return {"abs": abs_, "deep": deep}


def _cons(c, nm, unit):
    u, ex = core.to_units(c.kemeny_score, unit)
    return {"K": [[sorted(nm.elem(e) for e in b) for b in r] for r in c.consensus_rankings], "score": [u, 1 if ex else 0],
            "opt": 1 if c.necessarily_optimal else 0}


def call(kind, ds, ss, nm, unit, cand, algs=None, warm=None):
    """algs: dict of algorithm instances shared by the calls of one session (None: a fresh instance per call);
    warm: (dataset, scheme) the shared instance serves first, with its score read (history of the ALGORITHM object)"""
    try:
        if kind == "score":
            u, ex = core.to_units(_impl["K"](ss).get_kemeny_score(cand, ds), unit)
            return {"v": [u, 1 if ex else 0]}
        if kind == "cost_table":
            m = _impl["P"].pairwise_cost_matrix(ds.get_positions(), ss)
            return {"v": [[[core.to_units(x, unit)[0] for x in c] for c in row] for row in m.tolist()]}
        if kind in ("parcons_partition", "parfront_partition"):
            p = getattr(_impl["OP"], kind)(ds, ss)
            return {"v": [sorted(nm.elem(e) for e in g) for g in p]}
        if kind in _impl["algs"]:
            if algs is None:
                alg = _impl["algs"][kind]()
            else:
                alg = algs.setdefault(kind, _impl["algs"][kind]())
                if warm is not None:
                    try:
                        c0 = alg.compute_consensus_rankings(warm[0], warm[1], True)
                        _ = c0.kemeny_score
                        _ = c0.description()
                    except Exception:
                        pass
            # local searches return every best ranking found: more sensitive to a lost or altered starting point
            c = alg.compute_consensus_rankings(ds, ss, kind not in ("bioconsert", "bioco", "bio2"))
            return {"v": _cons(c, nm, unit)}
        if kind == "handbuilt_score":
            # a consensus built by hand that ranks only part of the elements (a "top-k"): reading its score may be
            # refused, it must not touch the dataset
            u = sorted(ds.universe, key=nm.elem)
            top = _impl["Ranking"]([{e} for e in u[:max(1, len(u) - 1)]])
            c = _impl["Consensus"]([top], dataset=ds, scoring_scheme=ss)
            try:
                v = c.kemeny_score
                d = c.description()
                return {"v": ["score", core.to_units(v, unit)[0], 1 if isinstance(d, str) else 0]}
            except Exception as ex:
                return {"v": ["refused", type(ex).__name__]}
        if kind == "handbuilt_full":
            # a consensus built by hand over the whole universe, WITHOUT feature dictionary: its score is computed on
            # demand and read twice
            c = _impl["Consensus"]([cand], dataset=ds, scoring_scheme=ss)
            a = c.kemeny_score
            d = c.description()
            b = c.kemeny_score
            return {"v": [core.to_units(a, unit)[0], core.to_units(b, unit)[0], 1 if isinstance(d, str) else 0]}
        if kind == "mut_remove_element":
            # in-place pre-processing between two runs: the first element of the universe leaves (refused when it is
            # the only one)
            u = sorted(ds.universe, key=nm.elem)
            ds.remove_elements({u[0]})
            return {"v": "done"}
        if kind == "mut_remove_rate":
            ds.remove_elements_rate_presence_lower_than(0.5)
            return {"v": "done"}
        if kind == "read_score":
            c = _impl["algs"]["copeland"]().compute_consensus_rankings(ds, ss, True)
            a = c.kemeny_score
            d = c.description()
            b = c.kemeny_score
            return {"v": [core.to_units(a, unit)[0], core.to_units(b, unit)[0], 1 if isinstance(d, str) else 0]}
        if kind == "unified":
            ur = ds.unified_rankings()
            ud = ds.unified_dataset()
            return {"v": [[[sorted(nm.elem(e) for e in b) for b in r] for r in ur],
                          [[sorted(nm.elem(e) for e in b) for b in r] for r in ud.rankings]]}
        if kind == "sub_problem":
            u = sorted(ds.universe, key=nm.elem)
            keep = set(u[:max(1, len(u) - 1)])
            sp = ds.sub_problem_from_elements(keep)
            sp2 = ds.sub_problem_from_ids({ds.mapping_elem_id[e] for e in keep})
            return {"v": [[[sorted(nm.elem(e) for e in b) for b in r] for r in sp.rankings], 1 if sp == sp2 else 0]}
        if kind == "eq_str":
            other = _impl["Dataset"](list(ds.rankings))
            return {"v": [1 if ds == other else 0, len(str(ds)) > 0, len(ds.description()) > 0, len(repr(ss)) > 0,
                          ss.get_nickname() in ("UKSP", "GPDP", "IGKS", "EKS"), len(ss.description()) > 0]}
        return {"v": "unknown-call"}
    except Exception as ex:
        return {"exc": type(ex).__name__}


def run_history(case):
    """each history in a forked child: state the library keeps at class or module level cannot leak into the next one"""
    return core.isolated(_run_history, case, timeout=30, on_timeout=_hung)


def _hung(case):
    rec = dict(case)
    rec.update(out="hang", snaps=[], shared=[], fresh=[])
    return rec


def _run_history(case):
    """case: {"D", "naming", "sch", "calls": [...], "seed"}"""
    D, (B, T, unit) = case["D"], case["sch"]
    ne = max(x for r in D for b in r for x in b)
    nm = NameMap(case["naming"], ne)
    rec = dict(case)
    rec.update(out="", snaps=[], shared=[], fresh=[])

    cur = {"D": D}

    def build():
        ds = _impl["Dataset"].from_raw_list(nm.raw_dataset(cur["D"]), name="shared")
        ss = _impl["SS"](core.scheme_float(B, T, unit))
        u = sorted(ds.universe, key=nm.elem)
        cand = _impl["Ranking"]([{e} for e in u])
        return ds, ss, cand
    try:
        ds, ss, cand = build()
    except Exception as ex:
        rec["out"] = "construct:" + type(ex).__name__
        return rec
    ids = Ids()
    rec["snaps"].append(snapshot(ds, ss, nm, ids))
    algs = {}
    warm = None
    if case.get("warm"):
        try:
            wD = [list(reversed(r)) for r in D]
            # an incomplete dataset; every other session uses a scheme that Borda / PickAPerm refuse on it
            if len(wD) > 1 and wD[-1]:
                wD = wD[:-1] + [wD[-1][:-1] or wD[-1]]
            wsch = ([0, 4, 4, 0, 4, 4], [4, 4, 0, 4, 4, 0]) if case["warm"] == 1 else ([0, 4, 2, 0, 4, 0], [2, 2, 0, 2, 2, 0])
            warm = (_impl["Dataset"].from_raw_list(nm.raw_dataset(wD), name="other"),
                    _impl["SS"](core.scheme_float(wsch[0], wsch[1], 4)))
        except Exception:
            warm = None
    for k, kind in enumerate(case["calls"]):
        random.seed(case["seed"] + k)
        rec["shared"].append(call(kind, ds, ss, nm, unit, cand, algs, warm))
        rec["snaps"].append(snapshot(ds, ss, nm, ids))
        if kind.startswith("mut_"):
            # the inputs are now what the mutator left: the fresh copies are rebuilt from the CURRENT rankings, and
            # the candidate scored by the later calls ranks the current universe
            cur["D"] = [[sorted(nm.elem(e) for e in b) for b in r] for r in ds.rankings]
            cand = _impl["Ranking"]([{e} for e in sorted(ds.universe, key=nm.elem)])
            rec["fresh"].append({"v": "done"})
            continue
        fds, fss, fcand = build()
        random.seed(case["seed"] + k)
        rec["fresh"].append(call(kind, fds, fss, nm, unit, fcand))
    rec["out"] = "ok"
    return rec
