"""C16 -- Ranking/Dataset views stay consistent through every construction and mutation."""
import itertools

from .. import core, grids, datarun
from ..framework import Model, Stage
from . import algo_common as ac
from . import extras_common

PID = "C16"
RULE = ("case = one operation (construction, remove_elements, remove_elements_rate_presence_lower_than, "
        "remove_empty_rankings) on ONE live Dataset followed by the observation of every accessor of the object, of its "
        "unified rankings, its unified dataset and 3 projections; sessions are single transitions from every dataset of "
        "the grid, all length-2 paths of a sub-grid and random paths of 6-10 operations; non-trivial = the operation "
        "changed the rankings or was refused; plus rankings from constructors, parsing and generators")
EXHAUSTIVE = {"quick": "every dataset (3 elements, <=2 rankings) x 17 mutator instances (all removal subsets incl. a foreign "
                       "element, 6 rates, remove_empty) = every transition of MC_DatasetSM; all 17x17 length-2 paths on "
                       "every 25th dataset",
              "thorough": "same + every 5th dataset for length-2 paths, 4-element datasets (every 7th), 3000 random "
                          "paths of 6-10 operations"}
ASSUMPTIONS = ["what a mutator should produce is drift-level (spec/DatasetSM.tla); the verdict only compares the "
               "object's accessors with the buckets it reports", "projection is by element name; types are observed "
               "separately (a dataset may legitimately change type when its last non-integer name is removed)"]
RATES = [(0, 1), (1, 3), (1, 2), (2, 3), (1, 1), (2, 1)]
NAMINGS = ["ints", "letters", "mixed1", "digits", "mixed3", "collide", "mixedraw", "intish", "neg"]


def op_instances(n):
    ops = []
    for k in range(n + 1):
        for S in itertools.combinations(range(1, n + 1), k):
            ops.append({"op": "remove_elements", "S": list(S)})
    ops.append({"op": "remove_elements", "S": [n + 1]})
    ops.append({"op": "remove_elements", "S": [1, n + 1]})
    for p, q in RATES:
        ops.append({"op": "remove_rate", "p": p, "q": q})
    ops.append({"op": "remove_empty"})
    return ops


def single_sessions(dss, n):
    ops = op_instances(n)
    out = []
    for k, D in enumerate(dss):
        for j, op in enumerate(ops):
            o = dict(op)
            if (k + j) % 3 == 0:
                o["raw"] = 1
            out.append({"D": D, "naming": NAMINGS[(k + j) % len(NAMINGS)], "ops": [o], "ne": n + 1,
                        "log_construct": 1 if j == 0 else 0, "entry": (k + j) % 7})
    return out


def path2_sessions(dss, n):
    ops = op_instances(n)
    out = []
    for k, D in enumerate(dss):
        for a, b in itertools.product(range(len(ops)), repeat=2):
            out.append({"D": D, "naming": NAMINGS[(k + a + b) % len(NAMINGS)], "ops": [dict(ops[a]), dict(ops[b])],
                        "ne": n + 1, "log_construct": 0})
    return out


def random_sessions(rng, count):
    out = []
    for _ in range(count):
        D = ac.random_dataset(rng, 7, 6)
        n = max(grids.universe(D))
        ops = []
        for _ in range(rng.randint(6, 10)):
            r = rng.random()
            if r < .5:
                k = rng.choice([0, 1, 1, 1, 2])
                S = rng.sample(range(1, n + 2), min(k, n + 1))
                ops.append({"op": "remove_elements", "S": sorted(S), "raw": rng.randint(0, 1)})
            elif r < .8:
                p, q = rng.choice(RATES + [(1, 4), (3, 4)])
                ops.append({"op": "remove_rate", "p": p, "q": q})
            else:
                ops.append({"op": "remove_empty"})
        out.append({"D": D, "naming": rng.choice(NAMINGS[:5]), "ops": ops, "ne": n + 1, "log_construct": 1})
    return out


def wider_sessions(rng, count):
    """9 to 14 elements (two-digit ids), ties so that ids are given in set-iteration order, one or two removals"""
    out = []
    for k in range(count):
        D = ac.larger_dataset(rng, 14, 6)
        if k % 2 and D[0]:
            D = [[sorted(set(D[0][0] + (D[0][1] if len(D[0]) > 1 else [])))] + D[0][2:]] + D[1:]
        n = max(grids.universe(D))
        if len(grids.universe(D)) < 9:
            continue
        ops = [{"op": "remove_elements", "S": sorted(rng.sample(range(1, n + 1), 2)), "raw": k % 2}]
        if k % 3 == 0:
            ops.append({"op": "remove_rate", "p": 1, "q": 2})
        out.append({"D": D, "naming": ["ints", "letters", "collide", "scatter", "big"][k % 5], "ops": ops, "ne": n + 1,
                    "log_construct": 1})
    return out


def many_rankings_sessions(rng, count):
    out = []
    for _ in range(count):
        D = ac.many_rankings_dataset(rng)
        n = max(grids.universe(D))
        out.append({"D": D, "naming": rng.choice(["ints", "letters"]), "ne": n + 1, "log_construct": 1,
                    "ops": [{"op": "remove_empty"}, {"op": "remove_rate", "p": 1, "q": 2}]})
    return out


def ranking_cases(tier, rng):
    out = []
    for n in (3, 4):
        for k, r in enumerate(grids.partial(n)):
            for src in ("ctor", "from_string"):
                out.append({"src": src, "r": r, "naming": ["ints", "letters", "collide"][k % 3], "ne": n})
    for n in range(1, 7):
        for steps in (0, 5, 50):
            for c in (0, 1):
                for _ in range(3 if tier == "quick" else 20):
                    out.append({"src": "generated", "r": [], "naming": "zero", "ne": n, "steps": steps, "complete": c,
                                "seed": rng.randrange(10 ** 9)})
    p3 = [r for r in grids.partial(3) if r]
    for k, r in enumerate(p3):
        for which in (0, 1):
            out.append({"src": "ctor_alias", "r": r, "naming": ["ints", "letters"][k % 2], "ne": 4, "which": which})
        r2 = p3[(k * 7 + 3) % len(p3)]
        for which in (0, 1):
            out.append({"src": "consensus_handbuilt", "r": r, "r2": r2, "naming": ["ints", "letters"][k % 2], "ne": 3,
                        "which": which})
    cfgs = ["Borda", "Copeland", "PickAPerm", "KwikSort", "BioConsert", "BioCo", "ParCons", "ExactPulp",
            "ParCons(b0,BioConsert)"]
    sch = [ac.P_UNI1, ac.P_UNI5, ac.P_IND1]
    dss = grids.datasets(3, 2)[::9] + [ac.random_dataset(rng, 6, 5, nmin=2) for _ in range(40 if tier == "quick" else 400)]
    for k, D in enumerate(dss):
        for j, cfg in enumerate(cfgs):
            if cfg in ("ExactPulp", "ParCons") and k % 3:
                continue
            out.append({"src": "consensus", "cfg": cfg, "D": D, "sch": list(sch[(k + j) % 3]), "r": [],
                        "naming": ["ints", "letters"][k % 2], "ne": max(grids.universe(D)), "seed": k, "k": k})
    return out


def _nt_step(rec):
    return rec.get("kind") == "step" and (rec["out"] != "ok" or [r["rk"] for r in rec["obs"]["rks"]] != rec["pre"]
                                          or rec["op"] == "construct")


def models(tier):
    return [Model("MC_DatasetSM", "MC_DatasetSM_3.cfg", "Dataset life cycle: every state reachable by <=2 mutations from "
                  "every dataset of the grid is a dataset, mutators only shrink, unified/projected datasets have the "
                  "stated shape")] + extras_common.models(tier)


def stages(tier, rng, only=None):
    g3 = grids.datasets(3, 2)
    out = [Stage("transitions", "Trace_Dataset", datarun.run_session, lambda: single_sessions(g3, 3), _nt_step,
                 datarun.init, post=datarun.flatten, chunk=4000),
           Stage("paths2", "Trace_Dataset", datarun.run_session,
                 lambda: path2_sessions(g3[::25] if tier == "quick" else g3[::5], 3), _nt_step, datarun.init,
                 post=datarun.flatten, chunk=4000),
           Stage("random", "Trace_Dataset", datarun.run_session,
                 lambda: random_sessions(rng, 250 if tier == "quick" else 3000), _nt_step, datarun.init,
                 post=datarun.flatten, chunk=4000),
           Stage("very_many_rankings", "Trace_Dataset", datarun.run_session,
                 lambda: many_rankings_sessions(rng, 6 if tier == "quick" else 40), _nt_step, datarun.init,
                 post=datarun.flatten, chunk=50),
           Stage("wider_projections", "Trace_Dataset", datarun.run_session,
                 lambda: wider_sessions(rng, 60 if tier == "quick" else 600), _nt_step, datarun.init,
                 post=datarun.flatten, chunk=200),
           Stage("sessions_as_behaviours", "Trace_DatasetSeq", datarun.run_session,
                 lambda: random_sessions(rng, 150 if tier == "quick" else 2000) + path2_sessions(g3[::40], 3), lambda r: True,
                 datarun.init, post=datarun.as_behaviours, chunk=500),
           Stage("rankings", "Trace_Dataset", datarun.run_ranking, lambda: ranking_cases(tier, rng),
                 lambda r: len(r["obs"]["rk"]) >= 2, datarun.init)]
    out += extras_common.c16_stages(tier, rng)      # specified behaviour outside the listed properties (drift only)
    if tier == "thorough":
        out.append(Stage("transitions4", "Trace_Dataset", datarun.run_session,
                         lambda: single_sessions(grids.datasets(4, 2)[::7], 4), _nt_step, datarun.init,
                         post=datarun.flatten, chunk=4000))
    return [s for s in out if not only or s.name == only]
