"""Case builders for the behaviour specified in spec/Extras.tla (outside the listed properties; differences are reported
as model drift, never as violations).  The stages are hosted by the checks of the nearest properties (C16, C07)."""
from .. import extrarun, grids
from ..framework import Model, Stage

HOWS = ["from_raw_lists", "ctor", "ctor_elements", "file", "with_dataset", "algorithm"]
NAMINGS = ["ints", "letters", "digits", "zero", "big"]


def models(tier):
    return [Model("MC_Extras", "MC_Extras_4.cfg" if tier == "quick" else "MC_Extras_5.cfg",
                  "beyond the listed properties: the bucket loop of Consensus.topk_ranking equals its definition, top-k is "
                  "bounded, monotone, unambiguous and maximal; element order is a strict total order per type; "
                  "ordered-partition views agree with the groups")]


def topk_cases(tier, rng):
    ps = [p for p in grids.partial(4) if p]
    out = []
    c = 0
    for r in ps:
        U = grids.dom(r)
        for k in range(-1, 7):
            how = HOWS[c % len(HOWS)]
            R = [r]
            if how in ("from_raw_lists", "ctor", "ctor_elements") and c % 3 == 0:
                R = [r, rng.choice(ps)]
            case = {"R": R, "k": k, "how": how, "naming": NAMINGS[(c // 7) % len(NAMINGS)], "ne": 4,
                    "gold": sorted(rng.sample(range(1, 5), rng.randint(0, 4))), "goldform": c % 3}
            if how == "with_dataset":
                case["D"] = [r, [U]] + ([rng.choice(ps)] if c % 2 else [])
            out.append(case)
            c += 1
    for _ in range(300 if tier == "quick" else 5000):
        n = rng.randint(5, 12)
        elems = list(range(1, n + 1))
        rng.shuffle(elems)
        elems = elems[:rng.randint(1, n)]
        r, cur = [], []
        for e in elems:
            cur.append(e)
            if rng.random() < .5:
                r.append(sorted(cur))
                cur = []
        if cur:
            r.append(sorted(cur))
        how = HOWS[c % len(HOWS)]
        case = {"R": [r], "k": rng.randint(-1, n + 2), "how": how, "naming": NAMINGS[c % len(NAMINGS)], "ne": n,
                "gold": sorted(rng.sample(range(1, n + 1), rng.randint(0, n))), "goldform": c % 3}
        if how == "with_dataset":
            case["D"] = [r, [sorted(elems)]]
        out.append(case)
        c += 1
    return out


def cviews_cases(tier, rng):
    ps = [p for p in grids.partial(3) if p]
    out = []
    c = 0
    for a in ps:
        for b in [None] + (ps if tier == "thorough" else ps[::3]):
            R = [a] if b is None else [a, b]
            if c % 5 == 0:
                R = R + [rng.choice(ps)]
            how = HOWS[c % 5]          # not through an algorithm: its consensus is not the given rankings
            case = {"R": R, "how": how, "naming": NAMINGS[(c // 5) % len(NAMINGS)], "ne": 4}
            if how == "with_dataset":
                case["D"] = R + [[[4]]] if c % 2 else R
            out.append(case)
            c += 1
    return out


def pviews_cases(tier, rng):
    out = []
    c = 0
    for n, ne in ((3, 3), (3, 4), (4, 4), (4, 5)):
        for P in grids.partial(n):
            if P:
                out.append({"P": P, "ne": ne, "naming": NAMINGS[c % len(NAMINGS)]})
                c += 1
    return out


def elem_cases(tier, rng):
    ints = [-2, -1, 0, 1, 2, 10, 2 ** 31 - 1]
    strs = ["", "0", "1", "10", "01", "a", "b", "ab", "B", "a1", "1a", " ", "-1", "aa", "a b"]
    vals = ints + strs
    return [{"va": a, "vb": b} for a in vals for b in vals]


def c16_stages(tier, rng):
    return [Stage("beyond_consensus_topk", "Trace_Extras", extrarun.run_topk, lambda: topk_cases(tier, rng),
                  lambda r: len(r["r"]) >= 2 and 0 < r["k"] < sum(len(b) for b in r["r"]), extrarun.init),
            Stage("beyond_consensus_views", "Trace_Extras", extrarun.run_cviews, lambda: cviews_cases(tier, rng),
                  lambda r: len(r["R"]) >= 2, extrarun.init),
            Stage("beyond_element_order", "Trace_Extras", extrarun.run_elem, lambda: elem_cases(tier, rng),
                  lambda r: r["va"] != r["vb"], extrarun.init)]


def c07_stages(tier, rng):
    return [Stage("beyond_partition_views", "Trace_Extras", extrarun.run_pviews, lambda: pviews_cases(tier, rng),
                  lambda r: len(r["P"]) >= 2, extrarun.init)]


# ------------------------------------------------------------------ files, folders, selector, dataset views
COMMENTS = ["% a comment", "%", "%[[1], [2]]", "%% [{9}]"]
SHORTS = ["", "[]", "ab", "  ", "1", "{}"]
FILE_NAMINGS = ["ints", "letters", "zero", "big", "mixed2"]


def _rand_lines(rng, ps, nmax=5):
    lines = []
    for _ in range(rng.randint(1, nmax)):
        u = rng.random()
        if u < .6:
            r = rng.choice(ps)
            line = {"k": "ranking", "r": r, "brace": rng.randint(0, 1), "sep": rng.choice([", ", ",", " , "]),
                    "prefix": rng.choice(["", "", "r1 : ", "x:"])}
            if rng.random() < .3:
                line["cont"] = rng.randint(1, 12)
            lines.append(line)
        elif u < .8:
            lines.append({"k": "comment", "text": rng.choice(COMMENTS)})
        else:
            lines.append({"k": "short", "text": rng.choice(SHORTS)})
    return lines


def fileg_cases(tier, rng):
    ps = grids.partial(3) + [p for p in grids.partial(4) if sum(len(b) for b in p) == 4][::5]
    out = []
    readers = ["from_file", "get_dataset_from_file", "consensus"]
    # every single ranking between every pair of other line kinds
    c = 0
    for r in ps:
        for before in (None, {"k": "comment", "text": COMMENTS[c % 4]}, {"k": "short", "text": SHORTS[c % 6]}):
            lines = ([before] if before else []) + [{"k": "ranking", "r": r, "brace": c % 2, "sep": ", ", "prefix": ""}]
            if c % 3 == 0:
                lines.append({"k": "short", "text": SHORTS[(c // 3) % 6]})
            if c % 4 == 1:
                lines.append({"k": "ranking", "r": ps[(c * 7) % len(ps)], "brace": 1, "sep": ", ", "prefix": "",
                              "cont": 1 + c % 9})
            out.append({"lines": lines, "naming": FILE_NAMINGS[c % len(FILE_NAMINGS)], "ne": 4, "reader": readers[c % 3],
                        "final_newline": 1 if c % 5 else 0})
            c += 1
    for _ in range(600 if tier == "quick" else 8000):
        out.append({"lines": _rand_lines(rng, ps), "naming": FILE_NAMINGS[c % len(FILE_NAMINGS)], "ne": 4,
                    "reader": readers[c % 3], "final_newline": rng.randint(0, 1)})
        c += 1
    return out


def folder_cases(tier, rng):
    ps = [p for p in grids.partial(3) if p]
    out = []
    for c in range(60 if tier == "quick" else 600):
        keys = rng.sample(range(0, 200), rng.randint(1, 5))
        files = []
        for k in keys:
            lines = _rand_lines(rng, ps, 4)
            if not any(l["k"] == "ranking" for l in lines):
                lines.append({"k": "ranking", "r": rng.choice(ps), "brace": 1, "sep": ", ", "prefix": ""})
            files.append({"key": k, "lines": lines})
        out.append({"files": files, "naming": FILE_NAMINGS[c % len(FILE_NAMINGS)], "ne": 4, "slash": c % 2})
    return out


def select_cases(tier, rng):
    dss = grids.datasets(3, 2)
    out = []
    INF = 1000000
    for c in range(400 if tier == "quick" else 5000):
        Ds = [rng.choice(dss) for _ in range(rng.randint(0, 6))]
        if c % 7 == 0 and Ds:
            Ds.append(Ds[0])           # equal datasets as distinct objects
        b = {"emin": rng.choice([0, 0, 1, 2, 3]), "emax": rng.choice([INF, INF, 1, 2, 3]),
             "rmin": rng.choice([0, 0, 1, 2]), "rmax": rng.choice([INF, INF, 1, 2])}
        out.append({"Ds": Ds, "b": b, "naming": NAMINGS[c % len(NAMINGS)], "ne": 3, "explicit": c % 2})
    return out


def dviews_cases(tier, rng):
    dss = grids.datasets(3, 2)
    out = []
    for c, D in enumerate(dss if tier == "thorough" else dss[::2]):
        out.append({"D": D, "ne": 4, "naming": NAMINGS[c % len(NAMINGS)], "how": [0, 1, 2, 3, 6][c % 5]})
    return out


def c18_stages(tier, rng):
    return [Stage("beyond_file_grammar", "Trace_Extras", extrarun.run_fileg, lambda: fileg_cases(tier, rng),
                  lambda r: sum(1 for l in r["lines"] if l["k"] == "ranking") >= 1 and len(r["lines"]) >= 2, extrarun.init),
            Stage("beyond_folder", "Trace_Extras", extrarun.run_folder, lambda: folder_cases(tier, rng),
                  lambda r: len(r["files"]) >= 2, extrarun.init)]


def c17_stages(tier, rng):
    return [Stage("beyond_dataset_selector", "Trace_Extras", extrarun.run_select, lambda: select_cases(tier, rng),
                  lambda r: len(r["Ds"]) >= 2, extrarun.init),
            Stage("beyond_dataset_views", "Trace_Extras", extrarun.run_dviews, lambda: dviews_cases(tier, rng),
                  lambda r: len(r["D"]) >= 2, extrarun.init)]


def factory_cases(tier, rng):
    from . import algo_common as ac
    schemes = [list(s) for s in (ac.P_UNI1, ac.P_IND1, ac.P_PSE1, ac.P_UNI5, ac.P_PSE5, ac.P_EXT)]
    names = ["EXACT", "PARCONS", "BIOCONSERT", "BIOCO", "KWIKSORTRANDOM", "PICKAPERM", "BORDACOUNT", "COPELANDMETHOD"]
    return [{"name": n, "none": k, "schemes": schemes} for n in names for k in (0, 1)]


def c14_stages(tier, rng):
    return [Stage("beyond_algorithm_factory", "Trace_Extras", extrarun.run_factory, lambda: factory_cases(tier, rng),
                  lambda r: True, extrarun.init)]


def bench_cases(tier, rng):
    import itertools
    out = []
    c = 0
    for ln in range(0, 5):
        for d in itertools.product((0, 1, 2, 5), repeat=ln):
            for lb in (-1, 0, 1, 3, 8):
                out.append({"d": list(d), "lb": lb, "alg": c, "flag": c % 2, "default_lb": 1 if lb == 8 and c % 3 == 0 else 0})
                c += 1
    for _ in range(100 if tier == "quick" else 2000):
        d = [rng.choice([0, 1, 3, 4, 9, 17]) for _ in range(rng.randint(0, 12))]
        out.append({"d": d, "lb": rng.randint(-2, 30), "alg": c, "flag": c % 2, "default_lb": 0})
        c += 1
    return out


def bench_models(tier):
    return [Model("MC_Bench", "MC_Bench.cfg", "beyond the listed properties: the loop of bench_time_consensus over every "
                  "clock script of <= 4 durations in {0,1,2,5} and 5 bounds: stops at the first moment the accumulated time "
                  "exceeds the bound, no computation exactly for a negative bound, terminates")]


def c03_stages(tier, rng):
    return [Stage("beyond_bench_time", "Trace_Extras", extrarun.run_bench, lambda: bench_cases(tier, rng),
                  lambda r: len(r["d"]) >= 2 and r["out"] == "ok", extrarun.init)]
