"""Case builders for the behaviour specified in spec/Extras.tla (outside the listed properties; differences are reported
as model drift, never as violations).  The stages are hosted by the checks of the nearest properties (C16, C07)."""
from .. import extrarun, grids
from ..framework import Model, Stage

HOWS = ["from_raw_lists", "ctor", "ctor_elements", "file", "with_dataset", "algorithm"]
NAMINGS = ["ints", "letters", "digits", "zero", "big"]


def models(tier):
    return [Model("MC_Extras", "MC_Extras_4.cfg" if tier == "quick" else "MC_Extras_5.cfg",
                  "beyond the listed properties: the bucket loop of Consensus.topk_ranking equals its definition, top-k is "
                  "bounded, monotone, unambiguous and maximal; element order is a strict total order per type; "
                  "ordered-partition views agree with the groups")]


def topk_cases(tier, rng):
    ps = [p for p in grids.partial(4) if p]
    out = []
    c = 0
    for r in ps:
        U = grids.dom(r)
        for k in range(-1, 7):
            how = HOWS[c % len(HOWS)]
            R = [r]
            if how in ("from_raw_lists", "ctor", "ctor_elements") and c % 3 == 0:
                R = [r, rng.choice(ps)]
            case = {"R": R, "k": k, "how": how, "naming": NAMINGS[(c // 7) % len(NAMINGS)], "ne": 4,
                    "gold": sorted(rng.sample(range(1, 5), rng.randint(0, 4))), "goldform": c % 3}
            if how == "with_dataset":
                case["D"] = [r, [U]] + ([rng.choice(ps)] if c % 2 else [])
            out.append(case)
            c += 1
    for _ in range(300 if tier == "quick" else 5000):
        n = rng.randint(5, 12)
        elems = list(range(1, n + 1))
        rng.shuffle(elems)
        elems = elems[:rng.randint(1, n)]
        r, cur = [], []
        for e in elems:
            cur.append(e)
            if rng.random() < .5:
                r.append(sorted(cur))
                cur = []
        if cur:
            r.append(sorted(cur))
        how = HOWS[c % len(HOWS)]
        case = {"R": [r], "k": rng.randint(-1, n + 2), "how": how, "naming": NAMINGS[c % len(NAMINGS)], "ne": n,
                "gold": sorted(rng.sample(range(1, n + 1), rng.randint(0, n))), "goldform": c % 3}
        if how == "with_dataset":
            case["D"] = [r, [sorted(elems)]]
        out.append(case)
        c += 1
    return out


def cviews_cases(tier, rng):
    ps = [p for p in grids.partial(3) if p]
    out = []
    c = 0
    for a in ps:
        for b in [None] + (ps if tier == "thorough" else ps[::3]):
            R = [a] if b is None else [a, b]
            if c % 5 == 0:
                R = R + [rng.choice(ps)]
            how = HOWS[c % 5]          # not through an algorithm: its consensus is not the given rankings
            case = {"R": R, "how": how, "naming": NAMINGS[(c // 5) % len(NAMINGS)], "ne": 4}
            if how == "with_dataset":
                case["D"] = R + [[[4]]] if c % 2 else R
            out.append(case)
            c += 1
    return out


def pviews_cases(tier, rng):
    out = []
    c = 0
    for n, ne in ((3, 3), (3, 4), (4, 4), (4, 5)):
        for P in grids.partial(n):
            if P:
                out.append({"P": P, "ne": ne, "naming": NAMINGS[c % len(NAMINGS)]})
                c += 1
    return out


def elem_cases(tier, rng):
    ints = [-2, -1, 0, 1, 2, 10, 2 ** 31 - 1]
    strs = ["", "0", "1", "10", "01", "a", "b", "ab", "B", "a1", "1a", " ", "-1", "aa", "a b"]
    vals = ints + strs
    return [{"va": a, "vb": b} for a in vals for b in vals]


def c16_stages(tier, rng):
    return [Stage("beyond_consensus_topk", "Trace_Extras", extrarun.run_topk, lambda: topk_cases(tier, rng),
                  lambda r: len(r["r"]) >= 2 and 0 < r["k"] < sum(len(b) for b in r["r"]), extrarun.init),
            Stage("beyond_consensus_views", "Trace_Extras", extrarun.run_cviews, lambda: cviews_cases(tier, rng),
                  lambda r: len(r["R"]) >= 2, extrarun.init),
            Stage("beyond_element_order", "Trace_Extras", extrarun.run_elem, lambda: elem_cases(tier, rng),
                  lambda r: r["va"] != r["vb"], extrarun.init)]


def c07_stages(tier, rng):
    return [Stage("beyond_partition_views", "Trace_Extras", extrarun.run_pviews, lambda: pviews_cases(tier, rng),
                  lambda r: len(r["P"]) >= 2, extrarun.init)]
