"""C06 -- ParCons: the partition admits an optimal consensus; the optimality flag is truthful."""
from .. import grids, partrun, algorun
from ..framework import Model, Stage
from . import algo_common as ac
from .C07 import _cases, _nt_part

PID = "C06"
RULE = ("partition cases = (dataset, scheme) -> the library's ParCons partition, checked against the full set of optimal "
        "consensus rankings; run cases = ParCons under 7 parameterisations (exact bound above/below the component "
        "sizes, 5 auxiliary algorithms wrapped to count delegations, CPLEX absent / stand-in) and every other algorithm "
        "for the flag clause; non-trivial = >= 3 elements and (a partition with >= 2 groups or a delegated component)")
EXHAUSTIVE = {"quick": "all 700 datasets (3 elements, <=2 rankings) x 5 schemes for the partition; same grid x 7 ParCons "
                       "configurations x 2 environments; sparse random datasets",
              "thorough": "18275 + 22648 datasets, sparse datasets up to 6 elements"}
ASSUMPTIONS = ["optimal consensus set by brute force (n<=5) / optimum by subset DP above", "CBC trusted; CPLEX stand-in",
               "'delegated' is observed by wrapping the auxiliary algorithm"]
SCHEMES = [ac.P_UNI5, ac.P_UNI1, ac.P_IND1, ac.P_PSE5, ac.P_EXT]
PARCONS = ["ParCons", "ParCons(b0,BioConsert)", "ParCons(b1,KwikSort)", "ParCons(b2,Borda)", "ParCons(b3,BioConsert)",
           "ParCons(b0,BioCo)",
           "ParCons(b0,ParCons(b0,Borda))", "ParCons(b80,rec)"]
OTHERS = [c for c in algorun.ALL_CONFIGS if c not in PARCONS]


def _nt_run(rec):
    return rec["out"] == "consensus" and ac.n_elems(rec) >= 3 and (len(rec["wpart"]) >= 2 or rec["auxcalls"] > 0
                                                                     or rec["opt"] == 1)


def _runs(dss, stride=1, others_stride=4):
    cs = ac.cases(dss, PARCONS, SCHEMES, flags=(1,), every={c: stride for c in PARCONS}, namings=ac.NAMINGS3)
    cs += ac.cases(dss, PARCONS, SCHEMES, flags=(1,), env="standin", every={c: stride * 2 for c in PARCONS})
    cs += ac.cases(dss, OTHERS, SCHEMES, flags=(1, 0), every={c: others_stride for c in OTHERS})
    return cs


def models(tier):
    from .C07 import models as m7
    return m7(tier)


def stages(tier, rng, only=None):
    aux = {"prop": PID}
    out = [Stage("partitions3x2", "Trace_Part", partrun.run_partitions, lambda: _cases(grids.datasets(3, 2), SCHEMES),
                 _nt_part, partrun.init, aux=aux),
           ac.stage("runs3x2", PID, lambda: _runs(grids.datasets(3, 2)), _nt_run),
           ac.stage("sparse", PID, lambda: _runs([ac.sparse_dataset(rng, 5) for _ in range(250 if tier == "quick" else 2500)],
                                                 1, 3), _nt_run)]
    out.append(Stage("split_votes_fractional", "Trace_Part", partrun.run_partitions,
                     lambda: _cases([ac.split_votes(rng, ties=k % 3 == 2) for k in range(250 if tier == "quick" else 2500)],
                                    ac.FRACTIONAL, False), _nt_part, partrun.init, aux=aux))
    out.append(ac.stage("cycles", PID, lambda: _runs(
        [ac.cyclic_dataset(rng, 3, 5, incomplete=k % 2 == 1) for k in range(100 if tier == "quick" else 1000)]
        + [ac.two_cycles(rng) for _ in range(12 if tier == "quick" else 100)]
        + [ac.cycle_plus(rng) for _ in range(60 if tier == "quick" else 600)], 1, 6), _nt_run))
    nq = 60 if tier == "quick" else 600
    # six or seven elements, three or four rankings with ties and missing elements: several non-trivial components in a
    # row, each handed to the exact model or to the auxiliary algorithm according to the bound
    out.append(ac.stage("several_components", PID, lambda: ac.cases(
        [ac.random_dataset(rng, 7, 4, nmin=6) for _ in range(150 if tier == "quick" else 1500)],
        ["ParCons(b0,BioConsert)", "ParCons(b2,Borda)", "ParCons(b3,BioConsert)", "ParCons(b0,BioCo)", "ParCons(b1,KwikSort)",
         "ParCons"], [ac.P_UNI1, ac.P_UNI5, ac.P_IND1, ac.P_PSE5], flags=(1,)), _nt_run))
    def multi():
        # corpus picked with tools/find_multi_component.py (the library only selects the inputs): two or more consecutive
        # groups of three elements or more that cannot be all tied
        import json
        import os
        corpus = json.load(open(os.path.join(os.path.dirname(os.path.dirname(__file__)), "corpus", "multi_component.json")))
        rng.shuffle(corpus)
        cs = []
        sch = [ac.P_UNI1, ac.P_UNI5, ac.P_IND1]
        for ent in corpus[:(20 if tier == "quick" else 287)]:
            cs += ac.cases([ent["D"]], ["ParCons(b0,BioConsert)", "ParCons(b2,Borda)", "ParCons(b0,BioCo)", "ParCons(b1,KwikSort)",
                                        "ParCons(b3,BioConsert)"], [sch[ent["sch"]]], flags=(1,))
        return cs
    out.append(ac.stage("consecutive_components", PID, multi, _nt_run))
    # history: the dataset (with an empty ranking among others) serves, is modified in place, serves again
    out.append(ac.stage("reuse_after_mutation", PID, lambda: ac.reuse_mutate_cases(
        [D for D in grids.datasets(3, 2) if [] in D][::2]
        + [ac.cyclic_dataset(rng, 3, 5, incomplete=k % 2 == 1) + [[]] for k in range(nq)]
        + [ac.random_dataset(rng, 5, 4, nmin=3) + [[]] for _ in range(nq)],
        ["ParCons", "ParCons(b0,BioConsert)", "ParCons(b2,Borda)"], [ac.P_UNI5, ac.P_UNI1, ac.P_EXT, ac.QUARTER], rng,
        all_ops=True), _nt_run))
    out.append(ac.stage("reuse_other_dataset", PID, lambda: ac.reuse_other_cases(
        [ac.cyclic_dataset(rng, 3, 5) for _ in range(nq)] + [ac.cycle_plus(rng) for _ in range(nq)]
        + grids.datasets(3, 2)[::10], PARCONS, SCHEMES, rng), _nt_run))
    out.append(ac.stage("tiny_penalties", PID, lambda: ac.cases(
        [ac.cyclic_dataset(rng, 3, 5, incomplete=k % 2 == 1) for k in range(nq)] + grids.datasets(3, 2)[::6],
        PARCONS + ["ExactPulp", "Exact(opt)"], ac.TINY, flags=(1,)), _nt_run))
    out.append(Stage("partitions_tiny", "Trace_Part", partrun.run_partitions,
                     lambda: _cases(grids.datasets(3, 2)[::2] + [ac.cyclic_dataset(rng, 3, 4) for _ in range(nq)],
                                    ac.TINY, False), _nt_part, partrun.init, aux=aux))
    lexd = grids.datasets(3, 2)[::4] + [ac.cyclic_dataset(rng, 3, 5, incomplete=k % 2 == 1) for k in range(nq)] \
        + [ac.cycle_plus(rng) for _ in range(nq // 2)] + [ac.cycle_with_singletons(rng) for _ in range(nq)]
    # the free solver cannot resolve relative differences of 6e-11: the ParCons runs use the CPLEX stand-in here
    out.append(ac.stage("lexicographic_penalties", PID, lambda: ac.lex_cases(lexd, PARCONS, env="standin")
                        + ac.lex_cases(lexd, ["BioConsert", "ExactCplex(opt)", "ExactOptim1"]), _nt_run))

    def lex_parts():
        cs = _cases(lexd, [ac.PRESET[0]], False)
        for k, c in enumerate(cs):
            c["lex"] = k % 7
        return cs
    out.append(Stage("partitions_lexicographic", "Trace_Part", partrun.run_partitions, lex_parts, _nt_part, partrun.init,
                     aux=aux))
    out.append(ac.stage("sparse_cycles", PID, lambda: _runs([ac.cycle_plus_sparse(rng) for _ in range(nq)], 1, 6),
                        _nt_run))
    out.append(ac.stage("ids_from_tied_buckets", PID, lambda: ac.cases(
        [ac.tied_first(rng) for _ in range(nq)], PARCONS, SCHEMES, flags=(1,), namings=["scatter", "collide", "letters"],
        env="standin"), _nt_run))
    # doubly-unranked pairs dearer to tie than to order (T[5] > B[5]) and the other way round
    # (the last three make ties cheap inside the rankings that see a pair and dear in those that see neither element:
    # whether a cycle is best tied or ordered then depends on the rankings that miss the whole component)
    t5 = [ac.P_EXT, ([0, 4, 2, 0, 2, 1], [2, 2, 0, 1, 1, 3], 4), ac.P_UNI1, ([0, 4, 4, 0, 4, 0], [4, 4, 0, 4, 4, 2], 4),
          ([0, 4, 4, 0, 4, 0], [1, 1, 0, 1, 1, 4], 4), ([0, 8, 8, 0, 8, 1], [3, 3, 0, 3, 3, 8], 8),
          ([0, 4, 4, 0, 4, 6], [1, 1, 0, 1, 1, 0], 4)]
    out.append(ac.stage("sparse_cycles_t5", PID, lambda: ac.cases(
        [ac.cycle_plus_sparse(rng) for _ in range(nq)], PARCONS, t5, flags=(1,), all_schemes=True, namings=["ints", "letters"])
        + ac.cases([ac.cycle_plus_sparse(rng) for _ in range(nq // 2)], PARCONS, t5, flags=(1,), all_schemes=True,
                   namings=["ints", "letters"], env="standin"), _nt_run))
    if tier == "thorough":
        out.append(Stage("partitions3x3", "Trace_Part", partrun.run_partitions,
                         lambda: _cases(grids.datasets(3, 3), SCHEMES, False), _nt_part, partrun.init, aux=aux))
        out.append(Stage("partitions4x2", "Trace_Part", partrun.run_partitions,
                         lambda: _cases(grids.datasets(4, 2), SCHEMES, False), _nt_part, partrun.init, aux=aux))
        out.append(ac.stage("runs4x2", PID, lambda: _runs(grids.datasets(4, 2), 12, 60), _nt_run))
        out.append(ac.stage("sparse6", PID, lambda: _runs([ac.sparse_dataset(rng, 6) for _ in range(1500)], 1, 5),
                            _nt_run))
    return [s for s in out if not only or s.name == only]
