"""C13 -- Copeland ranks by pairwise victories and reports consistent features."""
from .. import grids
from . import algo_common as ac

PID = "C13"
RULE = ("case = one Copeland run; TLC derives victories/equalities/defeats from the definitional cost table and checks "
        "the consensus order, the reported per-element scores and the counts, and their sums; non-trivial = >= 3 "
        "elements")
EXHAUSTIVE = {"quick": "all 700 datasets (3 elements, <=2 rankings) x 7 presets",
              "thorough": "all 18275 + 22648 datasets x rotating presets and grid schemes"}
ASSUMPTIONS = ["scores are multiples of 1/2 and logged doubled"]


def _nt(rec):
    return ac.n_elems(rec) >= 3


def stages(tier, rng, only=None):
    out = [ac.stage("grid3x2", PID, lambda: ac.cases(grids.datasets(3, 2), ["Copeland"], ac.PRESET, flags=(1,),
                                                     all_schemes=True, namings=["ints", "letters", "collide"]), _nt)]
    n_rand = 800 if tier == "quick" else 8000
    out.append(ac.stage("random", PID, lambda: ac.cases([ac.random_dataset(rng, 8, 6) for _ in range(n_rand)],
                                                        ["Copeland"], ac.PRESET + ac.grid_sample(rng, 12),
                                                        namings=["ints", "letters", "digits"]), _nt))
    out.append(ac.stage("larger", PID, lambda: ac.cases([ac.larger_dataset(rng) for _ in range(n_rand // 6)], ["Copeland"],
                                                        ac.PRESET + ac.MIXEDMAG[:2], namings=["ints", "letters"]), _nt))
    small = grids.datasets(3, 2)[::2] + [ac.random_dataset(rng, 5, 5, nmin=2) for _ in range(n_rand // 4)]
    out.append(ac.stage("lexicographic_penalties", PID, lambda: ac.lex_cases(small, ["Copeland"]), _nt))
    out.append(ac.stage("microscopic_penalties", PID, lambda: ac.scaled_cases(
        grids.datasets(3, 2)[::3] + [ac.random_dataset(rng, 6, 5) for _ in range(n_rand // 4)], ["Copeland"], ac.PRESET,
        40, namings=("ints", "letters")), _nt))

    def then_other():
        cs = ac.reuse_other_cases(grids.datasets(3, 2)[::2] + [ac.random_dataset(rng, 6, 5) for _ in range(n_rand // 4)],
                                  ["Copeland"], ac.PRESET, rng)
        for c in cs:
            c["reuse"]["kind"] = "then_other" if c["kseed"] % 2 else "other"
        return cs
    out.append(ac.stage("reuse_other_dataset", PID, then_other, _nt))
    out.append(ac.stage("transposed_pairs", PID, lambda: ac.pair_sequence_cases(ac.transposed_pairs(), ["Copeland"],
                                                                               ac.PRESET), _nt))
    if tier == "thorough":
        sch = ac.PRESET + ac.grid_sample(rng, 14)
        out.append(ac.stage("grid3x3", PID, lambda: ac.cases(grids.datasets(3, 3), ["Copeland"], sch, flags=(1,)), _nt))
        out.append(ac.stage("grid4x2", PID, lambda: ac.cases(grids.datasets(4, 2), ["Copeland"], sch, flags=(1,)), _nt))
    return [s for s in out if not only or s.name == only]
