"""C14 -- declared scheme applicability is truthful; complete data is never refused."""
from .. import grids, algorun
from . import algo_common as ac
from . import extras_common

PID = "C14"
RULE = ("case = (algorithm configuration incl. nested starters/auxiliaries, scheme, dataset): the predicate "
        "is_scoring_scheme_relevant_when_incomplete_rankings and the outcome of the run; non-trivial = incomplete "
        "dataset with >= 2 elements, or a complete dataset with >= 3 elements")
EXHAUSTIVE = {"quick": "25 configurations x 31 schemes (presets, multiples, near-family, 12 grid schemes) on a rotating "
                       "sub-grid of the 700 datasets (3 elements, <=2 rankings)",
              "thorough": "same configurations x 60 schemes x all 700 datasets + 4-element and random datasets"}
ASSUMPTIONS = ["CPLEX classes are exercised with the stand-in API present; the selector and ParCons in both environments",
               "one ranking requested (return_at_most_one_ranking=True): ExactAlgorithmCplex(optimize=True) documents "
               "that it refuses the other value"]


def schemes(rng, k):
    out = list(ac.PRESET)
    for s in (ac.P_UNI1, ac.P_UNI5, ac.P_IND1, ac.P_IND5):
        out += ac.multiples(s, ks=(3,))
    out += [([0, 4, 4, 0, 4, 4], [8, 8, 0, 8, 8, 0], 4), ([0, 4, 4, 0, 0, 0], [4, 4, 0, 4, 4, 0], 4),
            ([0, 4, 2, 0, 4, 2], [2, 2, 0, 2, 2, 2], 4), ([0, 4, 4, 4, 4, 4], [4, 4, 0, 4, 4, 0], 4)]
    return out + ac.grid_sample(rng, k)


def _nt(rec):
    return ac.n_elems(rec) >= (2 if not rec["complete"] else 3)


def _cases(dss, sch, stride):
    cfgs = algorun.ALL_CONFIGS
    cs = ac.cases(dss, cfgs, sch, flags=(1,), every={c: stride for c in cfgs})
    cs += ac.cases(dss, ["Exact(opt)", "Exact(noopt)", "ParCons", "ParCons(b0,BioCo)"], sch, flags=(1,),
                   env="standin", every={c: stride * 2 for c in cfgs})
    return cs


def stages(tier, rng, only=None):
    sch = schemes(rng, 12 if tier == "quick" else 40)
    g = grids.datasets(3, 2)
    out = []
    if tier == "quick":
        # every dataset meets every configuration under a rotating scheme; plus a sub-grid under ALL schemes
        out.append(ac.stage("grid3x2", PID, lambda: _cases(g, sch, 1), _nt))
        sub = g[::23]
        out.append(ac.stage("allschemes", PID,
                            lambda: ac.cases(sub, algorun.ALL_CONFIGS, sch, flags=(1,), all_schemes=True), _nt))
    else:
        out.append(ac.stage("grid3x2", PID, lambda: _cases(g, sch, 1), _nt))
        out.append(ac.stage("allschemes", PID,
                            lambda: ac.cases(g[::5], algorun.ALL_CONFIGS, sch, flags=(1,), all_schemes=True), _nt))
        out.append(ac.stage("grid4x2", PID, lambda: _cases(grids.datasets(4, 2), sch, 20), _nt))
        out.append(ac.stage("random", PID, lambda: _cases([ac.random_dataset(rng, 7, 5) for _ in range(1500)], sch, 1),
                            _nt))
    hist = g[::4] + [ac.cyclic_dataset(rng, 3, 5, incomplete=True) for _ in range(60 if tier == "quick" else 600)]
    out.append(ac.stage("reuse_after_mutation", PID, lambda: ac.reuse_mutate_cases(hist, algorun.ALL_CONFIGS, sch, rng),
                        _nt))
    out.append(ac.stage("reuse_other_dataset", PID, lambda: ac.reuse_other_cases(hist, algorun.ALL_CONFIGS, sch, rng),
                        _nt))
    out.append(ac.stage("very_many_rankings", PID, lambda: ac.cases(
        [ac.many_rankings_dataset(rng) for _ in range(10 if tier == "quick" else 80)],
        [c for c in algorun.ALL_CONFIGS if not c.startswith("Exact") and c != "ParCons"], sch, flags=(1,)), _nt))
    out.append(ac.stage("cycles", PID, lambda: _cases(
        [ac.cyclic_dataset(rng, 3, 5, incomplete=k % 3 != 0) for k in range(150 if tier == "quick" else 1500)]
        + [ac.two_cycles(rng) for _ in range(6 if tier == "quick" else 40)]
        + [ac.cycle_plus(rng) for _ in range(40 if tier == "quick" else 400)], sch, 1), _nt))
    def bench():
        cs = ac.cases(g[::97], [c for c in algorun.ALL_CONFIGS if not c.startswith("Exact")], sch, flags=(1,), all_schemes=True)
        for c in cs:
            c["bench"] = 1
        return cs
    out.append(ac.stage("bench_mode", PID, bench, _nt))
    out += extras_common.c14_stages(tier, rng)      # specified behaviour outside the listed properties (drift only)
    return [s for s in out if not only or s.name == only]
