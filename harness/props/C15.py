"""C15 -- computing a consensus never modifies its inputs; results are repeatable."""
import os
import re

from .. import core, grids, sessrun
from ..framework import Model, Stage
from . import algo_common as ac

PID = "C15"
RULE = ("case = one history of API calls replayed on ONE shared Dataset and ONE shared ScoringScheme; histories are the "
        "reachable states of spec/Session.tla (every sequence of <= 3 calls over 21 call kinds: two in-place removals, score, cost table, both "
        "partitions, 9 algorithms, read score/description, score of a hand-built partial consensus, unified views, "
        "projection, ==/str, score of a hand-built complete consensus without feature dictionary); after every call an "
        "abstract and a deep structural snapshot (private fields, object identities) of both inputs is taken; "
        "non-trivial = histories of >= 2 calls on datasets with >= 2 elements")
EXHAUSTIVE = {"quick": "all 9723 non-empty histories of <= 3 calls over 21 call kinds (two of them in-place mutators), each on a (dataset, scheme) from a pool of 24",
              "thorough": "all histories x 4 (dataset, scheme) pools + 2000 random histories of 8 calls"}
ASSUMPTIONS = ["within a session the algorithm OBJECTS are shared too (one instance per kind); in half of the sessions each "
               "shared instance first serves another dataset and its score is read, the fresh-copy twin uses fresh instances",
               "KwikSort is excluded from the repeatability clauses (random), not from the no-mutation clause",
               "the random generator is re-seeded identically before a call on the shared objects and on the fresh copies",
               "ExactAlgorithm answers through the free solver (no CPLEX in the sandbox)"]


def histories():
    dump = os.path.join(core.workdir("dumps"), "session")
    res = core.run_tlc("Session", "Gen_Session.cfg", extra=["-dump", dump], tag="gen_session")
    if not res.ok_finished:
        raise core.MachineryError("Session model failed:\n" + res.out[-1500:])
    out = []
    with open(dump + ".dump") as f:
        for line in f:
            m = re.match(r"/\\ hist = <<(.*)>>", line.strip())
            if m and m.group(1).strip():
                out.append(re.findall(r'"([^"]+)"', m.group(1)))
    os.unlink(dump + ".dump")
    if len(out) != res.distinct - 1:
        raise core.MachineryError(f"{len(out)} histories parsed, {res.distinct} states")
    return out, res


def pool(rng, k):
    sch = [ac.P_UNI1, ac.P_UNI5, ac.P_IND1, ac.P_PSE5, ([0, 8, 8, 0, 8, 8], [8, 8, 0, 8, 8, 0], 4),
           ([0, 2, 1, 0, 0, 0], [1, 1, 0, 0, 0, 0], 4), ([0, 12, 6, 0, 12, 0], [6, 6, 0, 6, 6, 0], 4)]
    out = []
    g = grids.datasets(3, 2)
    for j in range(k):
        D = ac.random_dataset(rng, 5, 4, nmin=2) if j % 2 else g[rng.randrange(len(g))]
        out.append((D, sch[j % len(sch)], ["ints", "letters", "collide", "digits"][j % 4]))
    return out


def _cases(rng, reps, pool_size):
    hs, _ = histories()
    out = []
    for rep in range(reps):
        pl = pool(rng, pool_size)
        for k, h in enumerate(hs):
            D, s, nmg = pl[(k + rep) % len(pl)]
            out.append({"D": D, "sch": list(s), "naming": nmg, "calls": h, "seed": rng.randrange(10 ** 6),
                        "warm": (k + rep) % 3})
    return out


def _random_long(rng, count):
    hs, _ = histories()
    kinds = sorted({c for h in hs for c in h})
    out = []
    for _ in range(count):
        D = ac.random_dataset(rng, 6, 5, nmin=2)
        out.append({"D": D, "sch": list(rng.choice([ac.P_UNI1, ac.P_UNI5, ac.P_IND1, ac.P_PSE5, ac.P_EXT])),
                    "naming": rng.choice(["ints", "letters", "collide"]),
                    "calls": [rng.choice(kinds) for _ in range(8)], "seed": rng.randrange(10 ** 6),
                    "warm": rng.randint(0, 2)})
    return out


def _nt(rec):
    return len(rec["calls"]) >= 2 and len(grids.universe(rec["D"])) >= 2


def models(tier):
    return [Model("Session", "Gen_Session.cfg", "session machine: every history of <= 3 calls over 21 call kinds (9724 states = histories), two of them mutators; "
                  "NoMutation action property and memo rule")]


def stages(tier, rng, only=None):
    out = [Stage("histories", "Trace_Session", sessrun.run_history,
                 lambda: _cases(rng, 1 if tier == "quick" else 4, 24), _nt, sessrun.init, chunk=1500)]
    out.append(Stage("long", "Trace_Session", sessrun.run_history,
                     lambda: _random_long(rng, 150 if tier == "quick" else 2000), _nt, sessrun.init, chunk=500))
    return [s for s in out if not only or s.name == only]
