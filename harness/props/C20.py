"""C20 -- random dataset generators deliver valid datasets of the requested shape."""
import os
import random
import re

from .. import core
from ..framework import Model, Stage

PID = "C20"
RULE = ("move cases = (model-reachable bucket-id vector, element, draw) executed on the real step dispatcher (spec -> "
        "code replay of every transition of the model graph); walk cases = real generator runs with every intermediate "
        "vector logged (code -> spec); gen cases = outputs of the four public generators over the (n, m, steps, "
        "complete) grid x seeds; non-trivial = the step changed the vector / the walk has >= 5 steps / n >= 2")
EXHAUSTIVE = {"quick": "all reachable vectors for n <= 5 (1082 incomplete / 541 complete at n=5) x every element x every draw",
              "thorough": "all reachable vectors for n <= 6 x elements x draws; model-checked invariant up to n = 8"}
ASSUMPTIONS = ["random.randint in corankco.ranking is replaced by a controlled/recording function; the name-mangled "
               "step dispatchers are wrapped to log vectors (harness-side, no source hook)"]
_impl = {}


def _init(aux):
    core.import_impl()
    import corankco.ranking as rk
    from corankco.dataset import Dataset, EmptyDatasetException
    _impl.update(rk=rk, Ranking=rk.Ranking, Dataset=Dataset, Empty=EmptyDatasetException, orig_randint=rk.randint)


def reachable(n, complete):
    """Reachable vectors of the MarkovGen model, from TLC's state dump."""
    tag = f"mk_{n}_{'T' if complete else 'F'}"
    dump = os.path.join(core.workdir("dumps"), tag)
    res = core.run_tlc("MarkovGen", f"MC_Markov_{n}_{'TRUE' if complete else 'FALSE'}.cfg",
                       extra=["-dump", dump], tag=tag)
    if not res.ok_finished:
        raise core.MachineryError("MarkovGen model check failed:\n" + res.out[-1500:])
    out = []
    with open(dump + ".dump") as f:
        for line in f:
            m = re.match(r"v = <<(.*)>>", line.strip())
            if m:
                out.append([int(x) for x in m.group(1).split(",")])
    os.unlink(dump + ".dump")
    if len(out) != res.distinct:
        raise core.MachineryError(f"dump has {len(out)} states, TLC reports {res.distinct}")
    return out, res


def move_cases(ns):
    cases = []
    for n in ns:
        for complete in (False, True):
            vecs, _ = reachable(n, complete)
            for v in vecs:
                for e in range(n):
                    for alea in range(1, 5 if complete else 6):
                        cases.append({"op": "move", "v": v, "e": e, "alea": alea, "complete": 1 if complete else 0})
    return cases


def run_move(case):
    import numpy as np
    rk, R = _impl["rk"], _impl["Ranking"]
    rec = dict(case)
    rec.update(out="", after=[], missing=[])
    arr = np.array(case["v"], dtype=int)
    missing = {i for i, b in enumerate(case["v"]) if b < 0}
    rk.randint = lambda a, b: case["alea"]
    try:
        if case["complete"]:
            getattr(R, "_Ranking__step_element_complete")(arr, case["e"])
        else:
            getattr(R, "_Ranking__step_element_incomplete")(arr, case["e"], missing)
        rec["after"] = [int(x) for x in arr]
        rec["missing"] = sorted(int(x) for x in missing)
        rec["out"] = "ok"
    except Exception as ex:
        rec["out"] = "error:" + type(ex).__name__
        rec["after"] = list(case["v"])
    finally:
        rk.randint = _impl["orig_randint"]
    return rec


def run_walk(case):
    """One call of Ranking.generate_rankings(n, 1, steps, complete) with every intermediate vector logged."""
    rk, R = _impl["rk"], _impl["Ranking"]
    rec = dict(case)
    rec.update(op="walk", out="", trace=[])
    trace = []
    names = ("_Ranking__step_element_complete", "_Ranking__step_element_incomplete")
    saved = {}

    def wrap(fn):
        def w(ranking, elem, *rest):
            if not trace:
                trace.append([int(x) for x in ranking])
            r = fn(ranking, elem, *rest)
            trace.append([int(x) for x in ranking])
            return r
        return staticmethod(w)
    try:
        for nm in names:
            saved[nm] = R.__dict__[nm]
            setattr(R, nm, wrap(getattr(R, nm)))
        random.seed(case["seed"])
        R.generate_rankings(case["n"], 1, case["steps"], bool(case["complete"]))
        rec["out"] = "ok"
    except Exception as ex:
        rec["out"] = "error:" + type(ex).__name__
    finally:
        for nm, fn in saved.items():
            setattr(R, nm, fn)
    if not trace:
        trace = [list(range(case["n"]))]
    rec["trace"] = trace
    return rec


def _proj(rankings):
    out = []
    for r in rankings:
        out.append([sorted(int(e.value) if isinstance(e.value, int) else -99 for e in b) for b in r])
    return out


def run_gen(case):
    R, D = _impl["Ranking"], _impl["Dataset"]
    rec = dict(case)
    rec.update(op="gen", out="", rankings=[], isds=0, flagc=0, flagt=0, nbr=0, allempty=0)
    n, m, steps, c = case["n"], case["m"], case["steps"], bool(case["complete"])
    fn = case["fn"]
    try:
        random.seed(case["seed"])
        if fn == "generate_rankings":
            rs = R.generate_rankings(n, m, steps, c)
        elif fn == "uniform":
            rs = R.uniform_permutations(n, m)
        else:
            if fn == "markov_dataset":
                # same seed, list-returning twin: tells whether every vector ended all-unranked
                twin = R.generate_rankings(n, m, steps, c)
                rec["allempty"] = 1 if len(twin) == 0 else 0
                random.seed(case["seed"])
                ds = D.get_random_dataset_markov(n, m, steps, c)
            else:
                ds = D.get_uniform_permutation_dataset(n, m)
            rs = ds.rankings
            rec.update(isds=1, flagc=1 if ds.is_complete else 0, flagt=1 if ds.without_ties else 0, nbr=ds.nb_rankings)
        rec["rankings"] = _proj(rs)
        rec["out"] = "ok"
    except _impl["Empty"]:
        rec["out"] = "EmptyDatasetException"
    except Exception as ex:
        rec["out"] = "error:" + type(ex).__name__
    return rec


def run_genbig(case):
    R = _impl["Ranking"]
    rec = dict(case)
    rec.update(op="genbig", out="", sizes=[], distinct=[], minelem=[], maxelem=[], emptybuckets=0)
    try:
        random.seed(case["seed"])
        rs = R.generate_rankings(case["n"], case["m"], case["steps"], bool(case["complete"]))
        for r in rs:
            vals = [e.value for b in r for e in b]
            rec["sizes"].append(len(vals))
            rec["distinct"].append(len(set(vals)))
            rec["minelem"].append(int(min(vals)) if vals else 0)
            rec["maxelem"].append(int(max(vals)) if vals else 0)
            rec["emptybuckets"] += sum(1 for b in r if len(b) == 0)
        rec["out"] = "ok"
    except Exception as ex:
        rec["out"] = "error:" + type(ex).__name__
    return rec


def genbig_cases(tier, rng):
    out = []
    for n in ((200, 33000) if tier == "quick" else (200, 5000, 33000, 70000)):
        for steps in (0, 3, 40):
            for c in (0, 1):
                out.append({"n": n, "m": 2, "steps": steps, "complete": c, "seed": rng.randrange(10 ** 9)})
    return out


def gen_cases(tier, rng):
    out = []
    seeds = 6 if tier == "quick" else 50
    for n in range(1, 7):
        for m in range(1, 5):
            for steps in (0, 1, 5, 50, 300):
                for c in (0, 1):
                    for _ in range(seeds):
                        s = rng.randrange(10 ** 9)
                        for fn in ("generate_rankings", "markov_dataset"):
                            out.append({"fn": fn, "n": n, "m": m, "steps": steps, "complete": c, "seed": s})
            for _ in range(seeds):
                s = rng.randrange(10 ** 9)
                for fn in ("uniform", "uniform_dataset"):
                    out.append({"fn": fn, "n": n, "m": m, "steps": 0, "complete": 1, "seed": s})
    # beyond the grid: many rankings (257+; counts m for which m * (1/m) is not 1 in binary floating point), a few more
    # elements
    for m in (49, 98, 103, 107, 161, 257, 300):
        for n in (2, 3):
            for c in (0, 1):
                for fn in ("generate_rankings", "markov_dataset"):
                    out.append({"fn": fn, "n": n, "m": m, "steps": 3, "complete": c, "seed": rng.randrange(10 ** 9)})
            for fn in ("uniform", "uniform_dataset"):
                out.append({"fn": fn, "n": n, "m": m, "steps": 0, "complete": 1, "seed": rng.randrange(10 ** 9)})
    rng.shuffle(out)          # requested sizes go up AND down inside one worker process
    return out


def walk_cases(tier, rng):
    out = []
    seeds = 8 if tier == "quick" else 60
    for n in range(1, 7):
        for steps in (1, 5, 50, 300):
            for c in (0, 1):
                for _ in range(seeds):
                    out.append({"n": n, "steps": steps, "complete": c, "seed": rng.randrange(10 ** 9)})
    return out


def models(tier):
    ms = [Model("MarkovGen", f"MC_Markov_5_{c}.cfg", f"generator moves: dense numbering preserved by every move from every "
                f"reachable vector, n=5, complete={c}") for c in ("TRUE", "FALSE")]
    if tier == "thorough":
        ms += [Model("MarkovGen", f"MC_Markov_{n}_{c}.cfg", f"same, n={n}, complete={c}") for n in (7, 8)
               for c in ("TRUE", "FALSE")]
    return ms


def stages(tier, rng, only=None):
    ns = (1, 2, 3, 4, 5) if tier == "quick" else (1, 2, 3, 4, 5, 6)
    out = [Stage("moves", "Trace_Markov", run_move, lambda: move_cases([n for n in ns if n >= 3]),
                 lambda r: r["after"] != r["v"], _init, chunk=40000),
           Stage("walks", "Trace_Markov", run_walk, lambda: walk_cases(tier, rng), lambda r: len(r["trace"]) >= 5, _init,
                 chunk=500),
           Stage("gen", "Trace_Markov", run_gen, lambda: gen_cases(tier, rng), lambda r: r["n"] >= 2, _init),
           Stage("gen_large_n", "Trace_Markov", run_genbig, lambda: genbig_cases(tier, rng), lambda r: True, _init)]
    return [s for s in out if not only or s.name == only]
