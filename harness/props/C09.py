"""C09 -- BioConsert is never worse than any of its starting points."""
from .. import grids
from ..framework import Model
from . import algo_common as ac
from .C08 import BIO, SCHEMES

PID = "C09"
RULE = ("case = one BioConsert run; starting algorithms are wrapped so that the consensus each one actually returned "
        "is recorded; TLC scores the starting points (default: every input ranking unified + the all-tied ranking, "
        "computed by the specification) and every returned ranking; non-trivial = >= 3 elements and at least two "
        "starting points with different scores")
EXHAUSTIVE = {"quick": "all 700 datasets of <=2 rankings over 3 elements x 7 configurations x both flags",
              "thorough": "quick + 18275 + 22648 datasets for default BioConsert and BioCo"}
ASSUMPTIONS = ["starters observed through harness-side wrapper algorithms (RankAggAlgorithm subclasses)"]


# starting algorithms nested (a local search started from a local search) or given as a set / a dictionary view
BIO2 = BIO + ["Bio[BioCo]", "Bio{Copeland}", "BioValues[Borda]"]


def _nt(rec):
    return rec["out"] == "consensus" and ac.n_elems(rec) >= 3


def models(tier):
    cfgs = ["book_uni5_3_1", "book_odd_3_1"] if tier == "quick" else ["book_uni5_3_1", "book_odd_3_1", "uni5_3_2", "thr_3_2"]
    return [Model("BioScan", f"MC_BioScan_{c}.cfg", "the transcribed search never ends above its departure ranking (invariant NeverWorse: every move gains more than the threshold), from every departure ranking of every one-ranking dataset over 3 elements") for c in cfgs]


def stages(tier, rng, only=None):
    out = [ac.stage("grid3x2", PID, lambda: ac.cases(grids.datasets(3, 2), BIO2, SCHEMES, namings=["ints", "letters"]),
                    _nt)]
    n_rand = 400 if tier == "quick" else 4000
    out.append(ac.stage("random", PID, lambda: ac.cases([ac.random_dataset(rng, 7, 6, nmin=3) for _ in range(n_rand)],
                                                        BIO2, SCHEMES + ac.grid_sample(rng, 8),
                                                        namings=["ints", "letters", "collide"]), _nt))
    out.append(ac.stage("tiny_penalties", PID, lambda: ac.cases(
        [ac.random_dataset(rng, 6, 6, nmin=3) for _ in range(n_rand // 2)], BIO, ac.TINY,
        namings=["ints", "letters"]), _nt))
    out.append(ac.stage("cycles", PID, lambda: ac.cases(
        [ac.cyclic_dataset(rng, 3, 6, incomplete=k % 2 == 1) for k in range(n_rand // 2)], BIO, SCHEMES,
        namings=["ints", "letters"]), _nt))
    out.append(ac.stage("mixed_magnitudes", PID, lambda: ac.cases(
        [ac.random_dataset(rng, 6, 6, nmin=3) for _ in range(n_rand // 2)], BIO, ac.MIXEDMAG,
        namings=["ints", "letters"]), _nt))
    out.append(ac.stage("reuse_other_dataset", PID, lambda: ac.reuse_other_cases(
        grids.datasets(3, 2)[::5] + [ac.random_dataset(rng, 7, 6, nmin=4) for _ in range(n_rand)]
        + [ac.cyclic_dataset(rng, 4, 6) for _ in range(n_rand // 2)], BIO, SCHEMES, rng, flags=(1, 0), reverse=True),
        _nt))
    out.append(ac.stage("tied_heavy", PID, lambda: ac.cases(
        [ac.tied_heavy_dataset(rng, with_empty=k % 3 == 0) for k in range(n_rand)], BIO,
        SCHEMES + [ac.QUARTER], namings=["ints", "letters"]), _nt))
    out.append(ac.stage("hard_corpus", PID, lambda: ac.corpus_cases(BIO2) + ac.corpus_cases(
        [c for c in BIO if c != "BioConsert"], reuse="refused_first") + ac.corpus_cases(BIO, reuse="other"), _nt))
    out.append(ac.stage("refused_first", PID, lambda: ac.refused_first_cases(
        [ac.random_dataset(rng, 7, 6, nmin=4) for _ in range(n_rand)] + [ac.cyclic_dataset(rng, 4, 6) for _ in range(n_rand // 2)]
        + [ac.tied_heavy_dataset(rng, False) for _ in range(n_rand // 2)],
        [c for c in BIO if c != "BioConsert"], [ac.P_UNI1, ac.P_UNI5, ac.P_IND1]), _nt))
    out.append(ac.stage("larger", PID, lambda: ac.cases([ac.larger_dataset(rng, 10, 25) for _ in range(n_rand // 8)], BIO,
                                                        SCHEMES, namings=["ints", "letters"]), _nt))
    out.append(ac.stage("huge_penalties", PID, lambda: ac.huge_cases(
        [ac.random_dataset(rng, 6, 6, nmin=4) for _ in range(n_rand // 2)]
        + [ac.cyclic_dataset(rng, 4, 6, incomplete=k % 2 == 1) for k in range(n_rand // 2)], BIO), _nt))
    out.append(ac.stage("reuse_after_mutation", PID, lambda: ac.reuse_mutate_cases(
        grids.datasets(3, 2)[::4] + [ac.random_dataset(rng, 6, 5, nmin=3) for _ in range(n_rand // 3)], BIO, SCHEMES,
        rng, flags=(1, 0)), _nt))
    if tier == "thorough":
        out.append(ac.stage("grid3x3", PID, lambda: ac.cases(grids.datasets(3, 3), ["BioConsert", "BioCo"], SCHEMES,
                                                             flags=(0,)), _nt))
        out.append(ac.stage("grid4x2", PID, lambda: ac.cases(grids.datasets(4, 2), ["BioConsert", "BioCo"], SCHEMES,
                                                             flags=(0,)), _nt))
    # a thousand elements and more (Trace_Wide): rankings that agree on their first and last elements
    out.append(ac.wide_stage("wide_1000", PID, lambda: ac.wide_cases(rng, 8 if tier == "quick" else 60, ["BioConsert"],
                                                                      flags=(1, 0), complete_only=True)))
    out.append(ac.wide_stage("permutations_17_plus", PID, lambda: ac.permutation_cases(
        rng, 14 if tier == "quick" else 140, ["BioConsert"], flags=(1, 0)), chunk=40))
    return [s for s in out if not only or s.name == only]
