"""C17 -- dataset equality means same multiset of rankings, nothing else."""
import itertools

from .. import grids, datarun
from ..framework import Stage
from . import extras_common
from . import algo_common as ac

PID = "C17"
RULE = ("case = a pair of datasets built with explicit bucket insertion orders (concrete state the abstraction must "
        "forget) under hash-colliding namings: same dataset with other insertion orders / permuted rankings / other "
        "name, near misses (one element moved to an adjacent or new bucket, two buckets swapped, one ranking "
        "duplicated or removed) and unrelated datasets; TLC decides equality of the bags of rankings; non-trivial = a "
        "bucket with >= 2 elements on either side or >= 2 rankings")
EXHAUSTIVE = {"quick": "every dataset (3 elements, <=2 rankings) x (every insertion-order variant, every ranking "
                       "permutation, every single-element move, duplicate/removal) under 3 namings",
              "thorough": "same for <=3 rankings (every 3rd) and 4 elements (every 5th), random larger pairs"}
ASSUMPTIONS = ["set iteration order is reached through insertion order and CPython's small-table collisions "
               "({0,8,16,24}); PYTHONHASHSEED=0 fixes string hashing; a second hash seed is used in thorough"]
NAMINGS = ["collide", "letters", "ints", "neg", "weird", "zeropad"]


def _orders(D, variant):
    """insertion orders for every bucket: 0 = ascending, 1 = descending, 2 = rotated"""
    out = []
    for r in D:
        rr = []
        for b in r:
            b = sorted(b)
            if variant == 1:
                b = b[::-1]
            elif variant == 2 and len(b) > 1:
                b = b[1:] + b[:1]
            rr.append(b)
        out.append(rr)
    return out


def _near_misses(D):
    out = []
    for k, r in enumerate(D):
        # move one element to the adjacent bucket / to a new bucket after its own
        for bi, b in enumerate(r):
            for x in b:
                if bi + 1 < len(r):
                    nr = [list(c) for c in r]
                    nr[bi].remove(x)
                    nr[bi + 1] = sorted(nr[bi + 1] + [x])
                    nr = [c for c in nr if c]
                    out.append(D[:k] + [nr] + D[k + 1:])
                if len(b) > 1:
                    nr = [list(c) for c in r]
                    nr[bi].remove(x)
                    nr.insert(bi + 1, [x])
                    out.append(D[:k] + [nr] + D[k + 1:])
        if len(r) >= 2:
            nr = [list(c) for c in r]
            nr[0], nr[1] = nr[1], nr[0]
            out.append(D[:k] + [nr] + D[k + 1:])
        if len(r) >= 2:
            out.append(D[:k] + [r[:-1]] + D[k + 1:])         # last bucket dropped: a bucket-prefix of the ranking
        out.append(D + [r])                      # one multiplicity changed
        if len(D) > 1:
            out.append(D[:k] + D[k + 1:])
    return [d for d in out if grids.universe(d)]


def pair_cases(dss, rng, others=3):
    cases = []
    for k, D in enumerate(dss):
        naming = NAMINGS[k % len(NAMINGS)]
        partners = []
        for v in (0, 1, 2):
            partners.append((D, v))
        for perm in itertools.permutations(range(len(D))):
            P = [D[i] for i in perm]
            partners.append((P, 1))
        for nmiss in _near_misses(D):
            partners.append((nmiss, rng.randint(0, 2)))
        for _ in range(others):
            partners.append((dss[rng.randrange(len(dss))], rng.randint(0, 2)))
        for P, v in partners:
            cases.append({"a": D, "oa": _orders(D, 0), "b": P, "ob": _orders(P, v), "naming": naming,
                          "ne": max(grids.universe(D) + grids.universe(P))})
    return _fix_naming(cases)


def mutation_cases(dss, rng):
    """compare, modify the first dataset in place, compare again (expected value from the observed rankings)"""
    cases = []
    for k, D in enumerate(dss):
        U = grids.universe(D)
        ops = [{"op": "remove_rate", "p": 1, "q": 2}]
        if [] in D and len(D) > 1:
            ops.append({"op": "remove_empty"})
        if len(U) >= 2:
            ops.append({"op": "remove_elements", "S": [U[k % len(U)]]})
        for op in ops:
            for P in (D, list(reversed(D)), dss[rng.randrange(len(dss))]):
                cases.append({"a": D, "oa": _orders(D, 0), "b": P, "ob": _orders(P, 1), "naming": NAMINGS[k % 6],
                              "ne": max(grids.universe(D) + grids.universe(P)), "ops": [op]})
    return cases


def _fix_naming(cases):
    """the zero-padded digit names are distinct elements only in a str-typed dataset: both datasets must contain the
    letter-named element 3"""
    for c in cases:
        if c["naming"] == "zeropad" and not (3 in grids.universe(c["a"]) and 3 in grids.universe(c["b"])
                                             and max(grids.universe(c["a"]) + grids.universe(c["b"])) <= 4):
            c["naming"] = "letters"
    return cases


def _nt(rec):
    return len(rec["a"]) >= 2 or len(rec["b"]) >= 2 or any(len(b) >= 2 for r in rec["a"] + rec["b"] for b in r)


def stages(tier, rng, only=None):
    out = [Stage("grid3x2", "Trace_Dataset", datarun.run_eq, lambda: pair_cases(grids.datasets(3, 2), rng), _nt,
                 datarun.init)]
    n_rand = 300 if tier == "quick" else 3000
    out.append(Stage("random", "Trace_Dataset", datarun.run_eq,
                     lambda: pair_cases([ac.random_dataset(rng, 7, 5) for _ in range(n_rand)], rng, 1), _nt,
                     datarun.init))
    out.append(Stage("after_mutation", "Trace_Dataset", datarun.run_eq,
                     lambda: mutation_cases(grids.datasets(3, 2) + [ac.random_dataset(rng, 6, 5) for _ in range(n_rand)],
                                            rng), _nt, datarun.init))
    if tier == "thorough":
        out.append(Stage("grid3x3", "Trace_Dataset", datarun.run_eq, lambda: pair_cases(grids.datasets(3, 3)[::3], rng),
                         _nt, datarun.init))
        out.append(Stage("grid4x2", "Trace_Dataset", datarun.run_eq, lambda: pair_cases(grids.datasets(4, 2)[::5], rng),
                         _nt, datarun.init))
    out += extras_common.c17_stages(tier, rng)      # specified behaviour outside the listed properties (drift only)
    out.append(ac.wide_eq_stage("permutations_16_plus", lambda: ac.wide_eq_cases(
        rng, 60 if tier == "quick" else 600, (16, 17, 32, 40, 64, 100))))
    out.append(ac.wide_eq_stage("wide_1000", lambda: ac.wide_eq_cases(rng, 8 if tier == "quick" else 60, (1001, 1004, 1030))))
    return [s for s in out if not only or s.name == only]
