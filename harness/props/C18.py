"""C18 -- rankings and datasets survive a round trip through text and files; the parser is total."""
import os

from .. import core, grids, datarun
from ..framework import Model, Stage
from . import extras_common

PID = "C18"
RULE = ("parse cases = texts rendered by spec/TextFormat.tla (every partial ranking over <=3/4 elements x 108 variants: "
        "brace/bracket, surrounding whitespace, name prefix, separators x 7 naming kinds: ints, multi-digit ints, ints from 0, names starting with a digit, dashes, "
        "letters, words); total cases = every string over the 9-character alphabet up to a length (batches of 1000); "
        "file cases = every dataset of the grid written to a fresh file and read back; non-trivial = rankings with >= 2 "
        "elements / every batch / datasets with >= 2 rankings or an empty ranking")
EXHAUSTIVE = {"quick": "26 rankings x 108 variants x 7 namings; all 66430 strings of length <= 5; all 700 datasets as files",
              "thorough": "150 rankings (4 elements) x variants; all 597871 strings of length <= 6 (+ 7 sampled); "
                          "18275 datasets as files"}
ASSUMPTIONS = ["equality of datasets read back is decided by TLC on the projected rankings (bag equality), not by the "
               "library's __eq__", "each parser call runs under a 20 s watchdog (a hang is a failure mode)",
               "the scanner is transcribed in spec/TextScan.tla; its prediction of which strings are accepted is compared "
               "with the library as drift only"]
_impl = {}


def _init(aux):
    core.import_impl()
    from corankco.ranking import Ranking
    _impl.update(Ranking=Ranking)


def _export(what, n, maxlen):
    name = f"TextFormat_{what}_{n}_{maxlen}.cfg"
    p = os.path.join(core.SPEC, name)
    txt = f'CONSTANTS N = {n} What = "{what}" MaxLen = {maxlen}\n'
    if not os.path.exists(p) or open(p).read() != txt:
        open(p, "w").write(txt)
    out = os.path.join(core.workdir("grids"), f"text_{what}_{n}_{maxlen}.ndjson")
    core.export_from_tlc("TextFormat", name, out)
    return core.load_ndjson(out)


NAMES = {"ints": lambda x: x, "big": lambda x: 100 + x, "zero": lambda x: x - 1, "letters": lambda x: "abcde"[x - 1],
         "words": lambda x: ["ab", "ba", "abc", "x1", "y_2"][x - 1],
         "dash": lambda x: ["--1", "---42", "-a", "a-b", "x--"][x - 1],
         "digitlead": lambda x: ["1a", "2b", "30x", "4th", "5S"][x - 1]}


def run_parse(case):
    R = _impl["Ranking"]
    rec = dict(case)
    rec.update(kind="parse", out="", got=[], typeok=0, eq=0)
    text = "".join(case["text"])
    name = NAMES[case["naming"]]
    rev = {}
    for x in range(1, 6):
        v = name(x)
        rev[(type(v), v)] = x
    try:
        how = case.get("how", 0)
        if how == 1:
            # any surrounding whitespace: the characters Python's str.strip() removes
            ws = ["\x1c", "\x1f", "\x85", "\xa0", "\u2003", "\r\n", "\n", "\x0b\x0c"]
            text = ws[case["id"] % len(ws)] + text + ws[(case["id"] // 3) % len(ws)]
        if how == 2:
            # through a file and Ranking.from_file, the ranking possibly preceded / followed by line breaks
            import os
            path = os.path.join(core.workdir("files"), f"rk_{os.getpid()}_{case['id']}.txt")
            pre = ["", "\n", "\n\n", " \n"][case["id"] % 4]
            with open(path, "w", encoding="utf-8") as f:
                f.write(pre + text + ["", "\n"][case["id"] % 2])
            try:
                r = core.with_alarm(2, R.from_file, path)
            finally:
                os.unlink(path)
        else:
            r = core.with_alarm(2, R.from_string, text)
    except core.Timeout:
        rec["out"] = "hang"
        return rec
    except Exception as ex:
        rec["out"] = type(ex).__name__
        return rec
    try:
        rec["got"] = [sorted(rev.get((e.type, e.value), 0) for e in b) for b in r]
        want_int = case["naming"] in ("ints", "big", "zero")
        rec["typeok"] = 1 if all((e.type is int) == want_int for b in r for e in b) else 0
        expected = R([{name(x) for x in b} for b in case["r"]])
        rec["eq"] = 1 if (r == expected and expected == r) else 0
        rec["out"] = "ok"
    except core.Timeout:
        rec["out"] = "hang"
    except Exception as ex:
        rec["out"] = type(ex).__name__
    return rec


def run_total(case):
    R = _impl["Ranking"]
    rec = {"id": case["id"], "kind": "total", "first": case["strings"][0], "n": len(case["strings"]), "outs": [],
           "chars": [list(s) for s in case["strings"]]}
    import contextlib
    import io
    for s in case["strings"]:
        try:
            with contextlib.redirect_stdout(io.StringIO()):        # the parser prints before raising
                core.with_alarm(2, R.from_string, s)
            rec["outs"].append("ok")
        except core.Timeout:
            rec["outs"].append("hang")
        except Exception as ex:
            rec["outs"].append(type(ex).__name__)
    rec["bad"] = [s for s, o in zip(case["strings"], rec["outs"]) if o not in ("ok", "ValueError")][:5]
    return rec


def total_cases(maxlen, rng=None, extra_len=None, extra_n=0):
    strs = ["".join(t) for t in _export("strings", 1, maxlen)]
    strs.sort(key=lambda s: (len(s), s))
    if extra_len:
        alpha = "[]{},: a1"
        strs += ["".join(rng.choice(alpha) for _ in range(extra_len)) for _ in range(extra_n)]
    return [{"strings": strs[k:k + 1000]} for k in range(0, len(strs), 1000)]


def neighbour_cases(rng, count):
    """every single-character edit (deletion, replacement, insertion over the alphabet) of texts rendered by the
    specification: the strings closest to valid ones, far longer than the exhaustive length bound"""
    alpha = "[]{},: a1\t\n"
    texts = sorted({"".join(r["text"]) for r in _export("rendered", 3, 0)})
    rng.shuffle(texts)
    out = set()
    for t in texts[:count]:
        for i in range(len(t) + 1):
            for ch in alpha:
                out.add(t[:i] + ch + t[i:])
                if i < len(t):
                    out.add(t[:i] + ch + t[i + 1:])
            if i < len(t):
                out.add(t[:i] + t[i + 1:])
    strs = sorted(out)
    return [{"strings": strs[k:k + 1000]} for k in range(0, len(strs), 1000)]


def long_neighbour_cases(rng, count):
    """texts with one long element name or one big bucket, valid or made invalid by an empty element (doubled comma,
    blank element, comma before the closing bracket) placed after the long part: the parser answers or refuses at once
    whatever the length (a validation that backtracks would not)"""
    longs = ["x" * 40, "abcdefghij" * 5, "a1" * 24, ", ".join(str(v) for v in range(10, 34)),
             ", ".join("e%d" % v for v in range(1, 20))]
    out = []
    for body in longs:
        for op, cl in (("{", "}"), ("[", "]")):
            good = "[" + op + body + cl + ", " + op + "zz" + cl + "]"
            out.append(good)
            for bad in (",,", ", ,", ",", ", "):
                out.append("[" + op + body + bad + cl + ", " + op + "zz" + cl + "]")
                out.append("[" + op + body + bad + "q" + cl + "]")
                out.append("[" + op + "zz" + cl + ", " + op + body + bad + cl + "]")
            out.append("[" + op + body + cl + bad + "]")
            out.append("[" + op + body + " " + cl + "]")
    rng.shuffle(out)
    out = out[:count]
    # many buckets (30 to 60) separated by blanks only, by commas, or not at all, with the fault after them
    for nb in (30, 45, 60):
        for op, cl in (("{", "}"), ("[", "]")):
            bks = [op + "g%d" % k + cl for k in range(nb)]
            for sep in (" ", ", ", ",", "", "  "):
                body = sep.join(bks)
                out += ["[" + body + "]", "[" + body + " oops]", "[" + body + sep + "]", "[" + body + " " + op + "]",
                        "[" + body + "," + "]", "[" + body]
    return [{"strings": out[k:k + 8]} for k in range(0, len(out), 8)]


def run_filetext(case):
    """arbitrary text as a dataset FILE: the reader must return a dataset or refuse with ValueError (an empty result is
    refused with the library's EmptyDatasetException); nothing else, no hang"""
    import os
    from corankco.dataset import Dataset, EmptyDatasetException
    rec = {"id": case["id"], "kind": "total", "first": case["texts"][0], "n": len(case["texts"]), "outs": [], "chars": []}
    path = os.path.join(core.workdir("files"), f"txt_{os.getpid()}_{case['id']}.txt")
    import contextlib
    import io
    for t in case["texts"]:
        try:
            with open(path, "w", encoding="utf-8") as f:
                f.write(t)
            with contextlib.redirect_stdout(io.StringIO()):
                core.with_alarm(2, Dataset.from_file, path)
            rec["outs"].append("ok")
        except core.Timeout:
            rec["outs"].append("hang")
        except EmptyDatasetException:
            rec["outs"].append("ValueError")        # documented refusal of a file without any ranking
        except Exception as ex:
            rec["outs"].append(type(ex).__name__)
    if os.path.exists(path):
        os.unlink(path)
    rec["bad"] = [t for t, o in zip(case["texts"], rec["outs"]) if o not in ("ok", "ValueError")][:5]
    return rec


def filetext_cases(rng, count):
    alpha = ["[", "]", "{", "}", ",", ":", " ", "a", "1", "\n", "\n", "  ", "\t", "%", "[[1],[2]]", "[{a},{b}]", "   ", "\\\n"]
    texts = []
    for _ in range(count):
        texts.append("".join(rng.choice(alpha) for _ in range(rng.randint(0, 14))))
    return [{"texts": texts[k:k + 500]} for k in range(0, len(texts), 500)]


def relative_path_cases(dss):
    return [{"D": D, "naming": ["ints", "letters"][k % 2], "ne": max(grids.universe(D)), "reader": k % 2, "relative": 1}
            for k, D in enumerate(dss)]


def file_cases(dss):
    out = []
    for k, D in enumerate(dss):
        n = max(grids.universe(D))
        out.append({"D": D, "naming": ["ints", "letters", "big", "zero", "mixed1", "mixed3"][k % 6], "ne": n,
                    "reader": k % 2})
    return out


def models(tier):
    return [Model("MC_TextScan", "MC_TextScan_4.cfg" if tier == "quick" else "MC_TextScan_5.cfg",
                  "scanner model (Python find/slice semantics transcribed): terminates on every string up to the bound "
                  "with outcome ok/ValueError only; reads back every rendered text"),
            Model("TextFormat", "TextFormat_thm_small.cfg" if tier == "quick" else "TextFormat_thm.cfg",
                  "the rendered text determines the ranking (Render is injective across variants), 7 naming kinds")]


def stages(tier, rng, only=None):
    n = 3 if tier == "quick" else 4
    def variants():
        base = _export("rendered", 3, 0)
        out_ = []
        for k, r in enumerate(base[::7]):
            for how in (1, 2):
                c = dict(r)
                c["how"] = how
                out_.append(c)
        return out_
    out = [Stage("parse", "Trace_Text", run_parse, lambda: _export("rendered", n, 0), lambda r: len(r["r"]) >= 1, _init,
                 chunk=30000),
           Stage("parse_whitespace_and_files", "Trace_Text", run_parse, variants, lambda r: len(r["r"]) >= 1, _init,
                 chunk=30000),
           Stage("file_texts", "Trace_Text", run_filetext, lambda: filetext_cases(rng, 4000 if tier == "quick" else 40000),
                 None, _init, chunk=2000),
           Stage("files_relative_path", "Trace_Dataset", datarun.run_file,
                 lambda: relative_path_cases(grids.datasets(3, 2)[::10]), lambda r: True, datarun.init, procs=1),
           Stage("total", "Trace_Text", run_total,
                 lambda: total_cases(5, rng, 7, 20000) if tier == "quick" else total_cases(6, rng, 8, 200000),
                 None, _init, chunk=2000),
           Stage("neighbours", "Trace_Text", run_total, lambda: neighbour_cases(rng, 150 if tier == "quick" else 1500),
                 None, _init, chunk=2000),
           Stage("long_neighbours", "Trace_Text", run_total, lambda: long_neighbour_cases(rng, 96 if tier == "quick" else 200),
                 None, _init, chunk=2000),
           Stage("files", "Trace_Dataset", datarun.run_file,
                 lambda: file_cases(grids.datasets(3, 2) if tier == "quick" else grids.datasets(3, 3)),
                 lambda r: len(r["D"]) >= 2 or [] in r["D"], datarun.init)]
    out += extras_common.c18_stages(tier, rng)      # specified behaviour outside the listed properties (drift only)
    return [s for s in out if not only or s.name == only]
