"""C10 -- PickAPerm returns exactly the best input rankings."""
from .. import grids
from ..framework import Model
from . import algo_common as ac

PID = "C10"
RULE = ("case = one PickAPerm run; TLC computes the unified input rankings, their scores and the minimum; non-trivial = "
        ">= 2 distinct input rankings with different scores, or a refusal case (incomplete + non-unifying scheme)")
EXHAUSTIVE = {"quick": "all 700 datasets (3 elements, <=2 rankings) x 9 schemes x both flags",
              "thorough": "all 18275 + 22648 datasets x rotating schemes x both flags"}
ASSUMPTIONS = ["'the unifying scheme' is read up to positive multiples (the library's documented notion of equivalent "
               "schemes, C19)"]
SCHEMES = [ac.P_UNI1, ac.P_UNI5, ac.P_IND1, ac.P_PSE1, ac.P_EXT] + ac.multiples(ac.P_UNI1) + \
          [([0, 4, 0, 0, 4, 0], [0, 0, 0, 4, 4, 0], 4),      # ties are free: many rankings score 0
           ([0, 4, 4, 0, 4, 4], [8, 8, 0, 8, 8, 0], 4),      # unifying B, doubled T: NOT the unifying scheme
           ([0, 4, 4, 0, 4, 4], [4, 4, 0, 4, 4, 4], 4)]


def _nt(rec):
    return len({str(r) for r in rec["D"]}) >= 2


def _still_incomplete_without_empties():
    """datasets of 3 rankings with an empty ranking that remain incomplete once it is removed"""
    out = []
    for D in grids.datasets(3, 3):
        if [] in D and len(D) == 3:
            rest = [r for r in D if r]
            if len(rest) >= 2 and len({tuple(grids.dom(r)) for r in rest}) > 1:
                out.append(D)
    return out


def models(tier):
    return [Model("MC_PickScan", "MC_PickScan.cfg", "the scan loop of PickAPerm as a state machine over every score sequence "
                  "of <= 5 rankings with scores 0..3: after k rankings the kept list is the definition's answer for the "
                  "first k scores (inductive form of 'minimum, every minimal input ranking'), terminates")]


def stages(tier, rng, only=None):
    out = [ac.stage("grid3x2", PID, lambda: ac.cases(grids.datasets(3, 2), ["PickAPerm"], SCHEMES, all_schemes=True,
                                                     namings=["ints", "letters", "weird"]), _nt)]
    n_rand = 600 if tier == "quick" else 6000
    out.append(ac.stage("random", PID, lambda: ac.cases([ac.random_dataset(rng, 7, 6) for _ in range(n_rand)],
                                                        ["PickAPerm"], SCHEMES + ac.grid_sample(rng, 10)), _nt))
    out.append(ac.stage("reuse_after_mutation", PID, lambda: ac.reuse_mutate_cases(
        grids.datasets(3, 2) + _still_incomplete_without_empties()[::(3 if tier == "quick" else 1)]
        + [ac.tied_heavy_dataset(rng) for _ in range(n_rand)]
        + [ac.random_dataset(rng, 6, 5, nmin=2) for _ in range(n_rand // 2)], ["PickAPerm"],
        [ac.P_UNI1, ac.P_UNI1, ac.P_UNI5, ac.P_IND1], rng, flags=(1, 0), all_ops=True), _nt))
    out.append(ac.stage("larger", PID, lambda: ac.cases([ac.larger_dataset(rng) for _ in range(n_rand // 4)], ["PickAPerm"],
                                                        SCHEMES, flags=(1, 0)), _nt))
    near = [ac.P_UNI1, ([0, 4, 3, 0, 4, 3], [3, 3, 0, 3, 3, 0], 4), ac.P_UNI5, ([0, 4, 4, 0, 4, 4], [4, 4, 0, 4, 4, 1], 4)]
    out.append(ac.stage("microscopic_penalties", PID, lambda: ac.scaled_cases(
        grids.datasets(3, 2)[::2], ["PickAPerm"], near, 40, flags=(1, 0)), _nt))
    out.append(ac.stage("majority_lookalikes", PID, lambda: ac.cases(
        ac.majority_datasets(), ["PickAPerm"], [ac.P_UNI1, ac.P_UNI5, ac.P_PSE1, ac.P_EXT], flags=(0, 1),
        namings=["weird", "weird", "letters"], all_schemes=True), _nt))
    out.append(ac.stage("reuse_other_dataset", PID, lambda: ac.reuse_other_cases(
        grids.datasets(3, 2) + [ac.random_dataset(rng, 6, 5, nmin=2) for _ in range(n_rand // 2)], ["PickAPerm"],
        SCHEMES, rng, flags=(1, 0)), _nt))
    if tier == "thorough":
        out.append(ac.stage("grid3x3", PID, lambda: ac.cases(grids.datasets(3, 3), ["PickAPerm"], SCHEMES), _nt))
        out.append(ac.stage("grid4x2", PID, lambda: ac.cases(grids.datasets(4, 2), ["PickAPerm"], SCHEMES), _nt))
    out.append(ac.wide_stage("wide_1000", PID, lambda: ac.wide_cases(rng, 2 if tier == "quick" else 20, ["PickAPerm"],
                                                                      flags=(0,), complete_only=True)))
    out.append(ac.wide_stage("permutations_17_plus", PID, lambda: ac.permutation_cases(
        rng, 28 if tier == "quick" else 280, ["PickAPerm"], flags=(0, 1)), chunk=40))
    def bench():
        cs = ac.cases(grids.datasets(3, 2)[::9] + [ac.random_dataset(rng, 6, 5, nmin=2) for _ in range(40)],
                      ["PickAPerm"], SCHEMES, all_schemes=True, flags=(1, 0))
        for c in cs:
            c["bench"] = 1
        return cs
    out.append(ac.stage("bench_mode", PID, bench, _nt))
    # penalties in tenths (0.3, 0.2, 0.7: not dyadic): input rankings that tie exactly in tenths must still all be returned
    tenths = [([0, 10, 3, 0, 10, 3], [3, 3, 0, 3, 3, 0], 10), ([0, 10, 2, 0, 10, 2], [2, 2, 0, 2, 2, 0], 10),
              ([0, 10, 7, 0, 10, 7], [7, 7, 0, 7, 7, 0], 10), ([0, 10, 3, 0, 10, 0], [3, 3, 0, 3, 3, 0], 10),
              ([0, 10, 10, 0, 0, 0], [3, 3, 0, 0, 0, 0], 10)]
    out.append(ac.stage("tenths", PID, lambda: ac.cases(
        grids.datasets(3, 2)[::3] + [ac.split_votes(rng, ties=True, m=rng.randint(3, 6)) for _ in range(n_rand // 2)]
        + [ac.tied_heavy_dataset(rng) for _ in range(n_rand // 4)], ["PickAPerm"], tenths, flags=(0,), all_schemes=True), _nt))
    return [s for s in out if not only or s.name == only]
