"""C11 -- KwikSort's result is pivot-independent when pairwise preferences cohere."""
from .. import grids, kwikrun
from ..framework import Model, Stage
from . import algo_common as ac

PID = "C11"
RULE = ("case = one complete KwikSort run under one pivot schedule; ALL schedules of each (dataset, scheme) are executed "
        "through a controlled pivot chooser (subclass overriding _get_pivot); TLC checks every logged (group, pivot) step "
        "against the cheapest pairwise placement computed from the definitional cost table, and equality with the "
        "coherent ranking when the preferences cohere; non-trivial = >= 3 elements and >= 2 recursion steps")
EXHAUSTIVE = {"quick": "every dataset (3 elements, <=2 rankings) x 5 schemes x every pivot schedule; model: all schedules "
                       "of all datasets of the grid (KwikSort.tla)",
              "thorough": "every dataset with <=3 rankings and every 4-element dataset (rotating schemes) x every schedule; "
                          "random 5-element datasets (<= 200 schedules each)"}
ASSUMPTIONS = ["pivot control through the documented extension point _get_pivot of KwikSortAbs",
               "dyadic penalties: the vectorised float costs of the library are exact"]
SCHEMES = [ac.P_UNI5, ac.P_IND1, ac.P_PSE5, ac.P_UNI1, ac.P_EXT]
# differences of 1 on penalties of 2^24: lost by single-precision arithmetic
PRECISE = [([0, 16777217, 16777216, 0, 16777217, 16777216], [16777216, 16777216, 0, 16777216, 16777216, 0], 1),
           ([0, 16777216, 16777217, 0, 0, 0], [16777217, 16777217, 0, 0, 0, 0], 1),
           ([0, 16777216, 8388609, 0, 16777216, 0], [8388608, 8388608, 0, 8388608, 8388608, 0], 1)]


def _cases(dss, schemes, all_schemes, max_runs=200):
    out = []
    for k, D in enumerate(dss):
        for s in (schemes if all_schemes else [schemes[k % len(schemes)]]):
            out.append({"D": D, "sch": list(s), "naming": ["ints", "letters", "neg", "zero"][k % 4], "max_runs": max_runs})
    return out


def _mut_cases(dss, schemes):
    out = []
    for k, D in enumerate(dss):
        U = grids.universe(D)
        ops = [{"op": "remove_rate", "p": 1, "q": 2}]
        if [] in D and len(D) > 1:
            ops.append({"op": "remove_empty"})
        if len(U) >= 3:
            ops.append({"op": "remove_elements", "S": [U[k % len(U)]]})
        out.append({"D": D, "sch": list(schemes[k % len(schemes)]), "naming": ["ints", "letters"][k % 2],
                    "max_runs": 60, "ops": [ops[k % len(ops)]]})
    return out


def wide(rng, count):
    """65-70 elements: code paths that switch on the size of a group (only a few schedules are run)"""
    out = []
    for _ in range(count):
        n = rng.randint(65, 70)
        base = rng.sample(range(1, n + 1), n)
        D = []
        if rng.random() < .7:
            # one total order and the same order with many adjacent pairs tied: for those pairs tying and ordering
            # cost exactly the same under the p = 1/2 schemes (tie preferred)
            r2 = [[e] for e in base]
            j = 0
            while j < len(r2) - 1:
                if rng.random() < .4:
                    r2[j:j + 2] = [sorted(r2[j] + r2[j + 1])]
                j += 1
            out.append([[[e] for e in base], r2])
            continue
        for _ in range(rng.randint(2, 3)):
            r = [[e] for e in base]
            for _ in range(rng.randint(3, 10)):
                j = rng.randrange(len(r) - 1)
                if rng.random() < .5:
                    r[j], r[j + 1] = r[j + 1], r[j]
                else:
                    r[j:j + 2] = [sorted(r[j] + r[j + 1])]
            D.append(r)
        out.append(D)
    return out


def identical(rng, count):
    out = []
    for _ in range(count):
        D = ac.random_dataset(rng, 5, 1, nmin=2)
        r = D[0]
        U = grids.universe([r])
        out.append([r] * rng.randint(1, 4))
    return out


def _nt(rec):
    return len(rec["steps"]) >= 2 and len(grids.universe(rec["D"])) >= 3


def models(tier):
    ms = [Model("KwikSort", f"MC_KwikSort_{s}_3_2.cfg", f"KwikSort step machine, every pivot schedule of every dataset "
                f"(3 elements, <=2 rankings), scheme {s}: blocks partition the universe, progress, coherent preferences "
                f"=> the coherent ranking, identical rankings returned unchanged") for s in ("uni5", "ind1", "odd")]
    ms.append(Model("KwikCount", "KwikCount_3.cfg" if tier == "quick" else "KwikCount_4.cfg",
                    "_where_should_it_be transcribed: the six-situation vector derived from five counts over two columns of "
                    "the positions matrix equals the count of rankings per situation, for every pair of columns; the "
                    "decision taken from the three costs is Pref"))
    if tier == "thorough":
        ms += [Model("KwikSort", f"MC_KwikSort_{s}_3_3.cfg", f"same, <=3 rankings, scheme {s}")
               for s in ("uni5", "uni1", "pse5", "ext")]
        ms += [Model("KwikSort", "MC_KwikSort_uni5_4_2.cfg", "same, 4 elements, unifying p=1/2", timeout=3000)]
    return ms


def stages(tier, rng, only=None, prop=None):
    aux = {"prop": prop or PID}
    out = [Stage("grid3x2", "Trace_Kwik", kwikrun.run_all_schedules, lambda: _cases(grids.datasets(3, 2), SCHEMES, True),
                 _nt, kwikrun.init, post=kwikrun.flatten, aux=aux),
           Stage("identical", "Trace_Kwik", kwikrun.run_all_schedules,
                 lambda: _cases(identical(rng, 150 if tier == "quick" else 1000), SCHEMES + ac.grid_sample(rng, 5), False,
                                60), _nt, kwikrun.init, post=kwikrun.flatten, aux=aux)]
    out.append(Stage("reuse_after_mutation", "Trace_Kwik", kwikrun.run_all_schedules,
                     lambda: _mut_cases(grids.datasets(3, 2)[::2] + [ac.random_dataset(rng, 5, 4, nmin=3)
                                                                     for _ in range(150 if tier == "quick" else 1500)],
                                        SCHEMES), _nt, kwikrun.init, post=kwikrun.flatten, aux=aux))
    out.append(Stage("precise_penalties", "Trace_Kwik", kwikrun.run_all_schedules,
                     lambda: _cases(grids.datasets(3, 2)[::3] + [ac.random_dataset(rng, 4, 4, nmin=3)
                                                                  for _ in range(100 if tier == "quick" else 1000)],
                                    PRECISE, False, 60), _nt, kwikrun.init, post=kwikrun.flatten, aux=aux))
    def lex_kwik():
        cs = _cases(grids.datasets(3, 2)[::3] + [ac.random_dataset(rng, 4, 4, nmin=3) for _ in range(60)], SCHEMES[:1],
                    False, 60)
        for k, c in enumerate(cs):
            c["lex"] = k % 7
        return cs
    out.append(Stage("lexicographic_penalties", "Trace_Kwik", kwikrun.run_all_schedules, lex_kwik, _nt, kwikrun.init,
                     post=kwikrun.flatten, aux=aux))
    out.append(Stage("wide", "Trace_Kwik", kwikrun.run_all_schedules,
                     lambda: _cases(wide(rng, 3 if tier == "quick" else 12), SCHEMES, False, 2), _nt, kwikrun.init,
                     post=kwikrun.flatten, aux=aux, chunk=4))
    if tier == "quick":
        out.append(Stage("grid4x2sample", "Trace_Kwik", kwikrun.run_all_schedules,
                         lambda: _cases(grids.datasets(4, 2)[::40], SCHEMES, False), _nt, kwikrun.init,
                         post=kwikrun.flatten, aux=aux))
    else:
        out.append(Stage("grid3x3", "Trace_Kwik", kwikrun.run_all_schedules,
                         lambda: _cases(grids.datasets(3, 3), SCHEMES, False), _nt, kwikrun.init,
                         post=kwikrun.flatten, aux=aux))
        out.append(Stage("grid4x2", "Trace_Kwik", kwikrun.run_all_schedules,
                         lambda: _cases(grids.datasets(4, 2)[::3], SCHEMES, False), _nt, kwikrun.init,
                         post=kwikrun.flatten, aux=aux))
        out.append(Stage("random5", "Trace_Kwik", kwikrun.run_all_schedules,
                         lambda: _cases([ac.random_dataset(rng, 5, 4, nmin=5) for _ in range(300)],
                                        SCHEMES + ac.grid_sample(rng, 8), False), _nt, kwikrun.init,
                         post=kwikrun.flatten, aux=aux))
    return [s for s in out if not only or s.name == only]
