"""C02 -- the pairwise cost table matches the definition and sums to the Kemeny score."""
from .. import core, grids
from ..framework import Model, Stage
from . import algo_common as ac

PID = "C02"
RULE = ("case = (dataset, scheme): the table from positions and from bucket ids, plus the library's score of every "
        "bucket order of the universe (<=75); TLC compares every entry with the definition, the two inputs, the mirror "
        "identities and the sums; non-trivial = >= 2 elements and an incomplete or tied dataset")
EXHAUSTIVE = {"quick": "all 700 datasets (3 elements, <=2 rankings) x 7 presets + 5 probing schemes",
              "thorough": "all 18275 + 22648 datasets x rotating presets/probes/grid schemes"}
ASSUMPTIONS = ["dyadic / integer penalties; probing schemes give each of the 18 per-ranking cases its own digit",
               "weights parameter left at its default (all ones); the weighted table is covered in the growth stage"]
PROBES = [([0, 1, 64, 4096, 262144, 16777216], [0, 0, 0, 0, 0, 0], 1),
          ([0, 1, 0, 0, 0, 0], [64, 64, 0, 4096, 4096, 262144], 1),
          ([0, 1000, 1, 0, 0, 0], [0, 0, 0, 0, 0, 0], 1),
          ([0, 1, 0, 1000, 1000000, 0], [0, 0, 0, 0, 0, 0], 1),
          ([0, 1, 0, 0, 0, 1000], [0, 0, 0, 1000000, 1000000, 1], 1)]
_impl = {}


def _init(aux):
    core.import_impl()
    from corankco.dataset import Dataset
    from corankco.ranking import Ranking
    from corankco.scoringscheme import ScoringScheme
    from corankco.kemeny_score_computation import KemenyComputingFactory
    from corankco.algorithms.pairwisebasedalgorithm import PairwiseBasedAlgorithm
    _impl.update(Dataset=Dataset, Ranking=Ranking, SS=ScoringScheme, K=KemenyComputingFactory,
                 P=PairwiseBasedAlgorithm, orders={})


def _orders(U):
    key = tuple(U)
    if key not in _impl["orders"]:
        from ..standin_cplex import bucket_orders
        _impl["orders"][key] = [[sorted(b) for b in bo] for bo in bucket_orders(U)]
    return _impl["orders"][key]


def run_case(case):
    rec = dict(case)
    rec.update(out="", exact=0, tabP=[], tabB=[], cs=[])
    am = core.Absmap(case["naming"], case["D"])
    B, T, unit = case["sch"]
    try:
        ds = _impl["Dataset"].from_raw_list(am.raw_dataset(case["D"]), name="study")     # every dataset of a process bears the same name (two files with one base name)
        ss = core.build_scheme(B, T, unit, case.get("schemeform", 0))
        if case.get("prevD"):
            # an earlier dataset (other shape, same flattened positions) served in the same process, same scheme
            try:
                pds = _impl["Dataset"].from_raw_list(core.Absmap(case["naming"], case["prevD"]).raw_dataset(case["prevD"]))
                _impl["P"].pairwise_cost_matrix(pds.get_positions(), ss)
                _impl["P"].pairwise_cost_matrix(pds.get_bucket_ids(), ss)
            except Exception:
                pass
        if case.get("ops"):
            # history: the matrices and the table are computed once, the dataset is modified in place, then measured
            _impl["P"].pairwise_cost_matrix(ds.get_positions(), ss)
            _impl["P"].pairwise_cost_matrix(ds.get_bucket_ids(), ss)
            ds.unified_rankings()
            for op in case["ops"]:
                if op["op"] == "remove_elements":
                    ds.remove_elements({am.value(x) for x in op["S"]})
                elif op["op"] == "remove_rate":
                    ds.remove_elements_rate_presence_lower_than(op["p"] / op["q"])
                else:
                    ds.remove_empty_rankings()
            rec["D"] = [am.ranking(r) for r in ds.rankings]
            case = dict(case)
            case["D"] = rec["D"]
        U = grids.universe(case["D"])
        n = max(U)
        exact = True

        def table(mat):
            nonlocal exact
            tab = [[[0, 0, 0] for _ in range(n)] for _ in range(n)]
            for i in range(mat.shape[0]):
                for j in range(mat.shape[1]):
                    x, y = am.elem(ds.mapping_id_elem[i]), am.elem(ds.mapping_id_elem[j])
                    for k in range(3):
                        v, ex = core.to_units(mat[i][j][k], unit, tol=0.0)      # dyadic penalties: bit-exact sums
                        exact = exact and ex
                        tab[x - 1][y - 1][k] = v
            return tab
        held = _impl["P"].pairwise_cost_matrix(ds.get_positions(), ss)
        # the table is HELD while other tables of the same size are computed (the same elements ranked in the opposite
        # order, another scheme): what was delivered must not change afterwards
        try:
            other = _impl["Dataset"].from_raw_list([list(reversed(r)) for r in am.raw_dataset(case["D"])])
            ss2 = core.build_scheme([0, 3, 1, 2, 5, 7], [11, 11, 0, 13, 13, 17], 1)
            _impl["P"].pairwise_cost_matrix(other.get_positions(), ss2)
            _impl["P"].graph_of_elements(other.get_positions(), ss2)
            _impl["P"].pairwise_cost_matrix(other.get_bucket_ids(), ss)
        except Exception:
            pass
        rec["tabP"] = table(held)
        # the same table as handed over by the other entry points (graph builders), and from bucket ids
        t2 = table(_impl["P"].graph_of_elements(ds.get_positions(), ss)[1])
        t3 = table(_impl["P"].graph_of_elements_with_robust_arcs(ds.get_positions(), ss)[1])
        rec["tabB"] = table(_impl["P"].pairwise_cost_matrix(ds.get_bucket_ids(), ss))
        if t2 != rec["tabP"]:
            rec["tabB"] = t2          # a difference is reported by the "same table" clause
        elif t3 != rec["tabP"]:
            rec["tabB"] = t3
        kcf = _impl["K"](ss)
        cs = []
        if len(U) <= 4:
            for c in _orders(U):
                v, ex = core.to_units(kcf.get_kemeny_score(_impl["Ranking"](am.norm_ranking(c)), ds), unit)
                exact = exact and ex
                cs.append([c, v])
        rec["cs"] = cs
        rec["exact"] = 1 if exact else 0
        rec["out"] = "table"
    except Exception as ex:
        rec["out"] = "setup-failed" if case.get("ops") else "error:" + type(ex).__name__
    return rec


def _mut_cases(dss, schemes):
    out = []
    for k, D in enumerate(dss):
        U = grids.universe(D)
        ops = [{"op": "remove_rate", "p": 1, "q": 2}]
        if [] in D and len(D) > 1:
            ops.append({"op": "remove_empty"})
        if len(U) >= 2:
            ops.append({"op": "remove_elements", "S": [U[k % len(U)]]})
        for op in ops:
            out.append({"D": D, "naming": ["ints", "letters"][k % 2], "sch": list(schemes[k % len(schemes)]), "ops": [op]})
    return out


def _nt(rec):
    return ac.n_elems(rec) >= 2


def _cases(dss, schemes, namings, all_schemes):
    out = []
    for k, D in enumerate(dss):
        for s in (schemes if all_schemes else [schemes[k % len(schemes)]]):
            out.append({"D": D, "naming": namings[k % len(namings)], "sch": list(s), "schemeform": k % 5})
    return out


def models(tier):
    return [Model("MC_Kemeny", "MC_Kemeny_3.cfg" if tier == "quick" else "MC_Kemeny_3b.cfg",
                  "cost table: Mirror, ScoreTable (selected entries add up to the definitional score) for every "
                  "dataset of the grid")]


def stages(tier, rng, only=None):
    sch = ac.PRESET + PROBES + ac.ONEHOT + [m for s in (ac.P_UNI1, ac.P_PSE1, ac.P_IND1, ac.P_EXT) for m in ac.multiples(s, ks=(2,))]
    nm = ["ints", "letters", "collide", "neg", "weird", "mixed1", "mixed3", "mixedraw"]
    out = [Stage("grid3x2", "Trace_Cost", run_case, lambda: _cases(grids.datasets(3, 2), sch, nm, True), _nt, _init)]
    n_rand = 500 if tier == "quick" else 5000
    sch2 = sch + ac.grid_sample(rng, 12)
    out.append(Stage("random", "Trace_Cost", run_case,
                     lambda: _cases([ac.random_dataset(rng, 7, 6) for _ in range(n_rand)], sch2, nm, False), _nt, _init))
    out.append(Stage("after_mutation", "Trace_Cost", run_case,
                     lambda: _mut_cases(grids.datasets(3, 2) + [ac.random_dataset(rng, 6, 5, nmin=2) for _ in range(n_rand)],
                                        sch), _nt, _init))
    out.append(Stage("larger", "Trace_Cost", run_case,
                     lambda: _cases([ac.larger_dataset(rng) for _ in range(n_rand // 3)], sch2, nm, False), _nt, _init))
    out.append(Stage("tiny_penalties", "Trace_Cost", run_case,
                     lambda: _cases(grids.datasets(3, 2)[::3] + [ac.random_dataset(rng, 6, 5) for _ in range(n_rand // 3)],
                                    ac.TINY + [(B, T, 2 ** 20) for (B, T, _) in ac.PRESET[:3]], nm, False), _nt, _init))
    out.append(Stage("transposed_pairs", "Trace_Cost", run_case,
                     lambda: [{"D": B, "prevD": A, "naming": "ints", "sch": list(sch[k % len(sch)])}
                              for k, (A, B) in enumerate(ac.transposed_pairs())], _nt, _init))
    if tier == "thorough":
        out.append(Stage("grid3x3", "Trace_Cost", run_case, lambda: _cases(grids.datasets(3, 3), sch2, nm, False),
                         _nt, _init))
        out.append(Stage("grid4x2", "Trace_Cost", run_case, lambda: _cases(grids.datasets(4, 2), sch2, nm, False),
                         _nt, _init))
    return [s for s in out if not only or s.name == only]
