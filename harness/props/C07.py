"""C07 -- the ParFront partition is respected by every optimal consensus; the consistency test."""
from .. import grids, partrun
from ..framework import Model, Stage
from . import algo_common as ac
from . import extras_common

PID = "C07"
RULE = ("partition cases = (dataset, scheme): TLC enumerates ALL optimal consensus rankings and checks the three clauses "
        "on the partition the library returned; consistency cases = (ordered partition, ranking) pairs, expected truth "
        "value from the relation in spec/Trace_Part.tla; non-trivial = >= 3 elements and a ParCons partition with >= 2 "
        "groups, resp. pairs over the same element set")
EXHAUSTIVE = {"quick": "all 700 datasets (3 elements, <=2 rankings) x 5 schemes; all 149 x 149 (partition, ranking) pairs "
                       "over subsets of 4 elements",
              "thorough": "all 18275 datasets (<=3 rankings) + all 22648 datasets over 4 elements, rotating schemes; "
                          "cascade instances"}
ASSUMPTIONS = ["optimal consensus set by brute force (<= 5 elements)", "consistent_with runs under a 50 s watchdog"]
SCHEMES = [ac.P_UNI5, ac.P_UNI1, ac.P_IND1, ac.P_PSE5, ac.P_EXT]


def _cases(dss, schemes, all_schemes=True):
    out = []
    for k, D in enumerate(dss):
        for s in (schemes if all_schemes else [schemes[k % len(schemes)]]):
            out.append({"D": D, "sch": list(s), "naming": ["ints", "letters"][k % 2]})
    return out


def cascade(rng):
    """>= 3 components with non-robust consecutive pairs: chains 1<2<...<n voted by one ranking against all-tied votes"""
    n = rng.randint(3, 5)
    chain = [[e] for e in rng.sample(range(1, n + 1), n)]
    D = [chain]
    for _ in range(rng.randint(1, 3)):
        r = rng.random()
        if r < .4:
            D.append([sorted(range(1, n + 1))])
        elif r < .7:
            k = rng.randint(1, n - 1)
            flat = [b[0] for b in chain]
            D.append([sorted(flat[:k]), sorted(flat[k:])])
        else:
            D.append(ac.random_dataset(rng, n, 1, nmin=n)[0])
    return D


def _nt_part(rec):
    return rec.get("op") == "partitions" and len(rec["pc"]) >= 2 and ac.n_elems(rec) >= 3


def _nt_cons(rec):
    return sorted(x for g in rec["P"] for x in g) == sorted(x for b in rec["c"] for x in b)


def _pairs(n):
    ps = [p for p in grids.partial(n) if p]
    return [{"P": P, "c": c, "naming": ["ints", "letters"][(i + j) % 2]} for i, P in enumerate(ps)
            for j, c in enumerate(ps)]


def _repeated(n, rng, count):
    """the same OrderedPartition object is queried several times (earlier queries may leave traces in the object)"""
    ps = [p for p in grids.partial(n) if p]
    out = []
    for _ in range(count):
        P = rng.choice(ps)
        E = sorted(x for g in P for x in g)
        same = [c for c in ps if sorted(x for b in c for x in b) == E]
        prev = [rng.choice(same) for _ in range(rng.randint(1, 2))]
        if rng.random() < .5:
            prev[0] = P                                      # a consistent query first
        c = rng.choice(same) if rng.random() < .8 else rng.choice(ps)
        out.append({"P": P, "c": c, "prev": prev, "naming": rng.choice(["ints", "letters"])})
    return out


def models(tier):
    ms = [Model("MC_Partition", "MC_Partition_uni5_3_2.cfg", "ParCons/ParFront design theorems, all datasets "
                "(3 elements, <=2 rankings), every topological order, merge loop as a step machine; unifying p=1/2"),
          Model("MC_Partition", "MC_Partition_ind1_3_2.cfg", "same, induced measure p=1")]
    walk = ("consistent_with as a state machine (loops transcribed): for every (ordered partition, bucket order) pair over "
            "subsets of the elements the walk returns, and returns TRUE exactly for the relation of C07")
    ms.append(Model("ConsistWalk", "MC_ConsistWalk_3.cfg" if tier == "quick" else "MC_ConsistWalk_4.cfg", walk))
    if tier == "thorough":
        ms.append(Model("ConsistWalk", "MC_ConsistWalk_malformed.cfg", "named deviation: with a consensus announcing more "
                        "elements than its first ranking holds the outer loop has no exit (the model reproduces the hang)",
                        expect="violated"))
        ms += [Model("MC_Partition", f"MC_Partition_{s}_3_3.cfg", f"same, <=3 rankings, scheme {s}")
               for s in ("uni5", "uni1", "pse5", "ext", "odd")]
        ms += [Model("MC_Partition", "MC_Partition_uni5_4_2.cfg", "same, 4 elements <=2 rankings, unifying p=1/2",
                     timeout=3000)]
    return ms


def stages(tier, rng, only=None):
    aux = {"prop": PID}
    out = [Stage("partitions3x2", "Trace_Part", partrun.run_partitions, lambda: _cases(grids.datasets(3, 2), SCHEMES),
                 _nt_part, partrun.init, aux=aux),
           Stage("cascade", "Trace_Part", partrun.run_partitions,
                 lambda: _cases([cascade(rng) for _ in range(300 if tier == "quick" else 3000)],
                                SCHEMES + ac.grid_sample(rng, 6), False), _nt_part, partrun.init, aux=aux),
           Stage("consistent", "Trace_Part", partrun.run_consistent, lambda: _pairs(3 if tier == "quick" else 4),
                 _nt_cons, partrun.init, aux=aux)]
    out.append(Stage("transposed_pairs", "Trace_Part", partrun.run_partitions,
                     lambda: [{"D": B, "prevD": A, "naming": "ints", "sch": list(SCHEMES[k % len(SCHEMES)])}
                              for k, (A, B) in enumerate(ac.transposed_pairs())], _nt_part, partrun.init, aux=aux))
    nsv = 400 if tier == "quick" else 4000
    out.append(Stage("split_votes_fractional", "Trace_Part", partrun.run_partitions,
                     lambda: _cases([ac.split_votes(rng, ties=k % 3 == 2) for k in range(nsv)], ac.FRACTIONAL, False)
                     + _cases([ac.split_votes(rng, m=4 + k % 2, ties=False) for k in range(nsv // 2)], ac.FRACTIONAL[:3], True),
                     _nt_part, partrun.init, aux=aux))
    def lex_parts():
        dss = grids.datasets(3, 2)[::3] + [cascade(rng) for _ in range(100 if tier == "quick" else 1000)] \
            + [ac.cyclic_dataset(rng, 3, 5, incomplete=k % 2 == 1) for k in range(60 if tier == "quick" else 600)] \

        cs = _cases(dss, [ac.PRESET[0]], False)
        for k, c in enumerate(cs):
            c["lex"] = k % 7
        # huge penalties only for half-missing pairs + symmetric missingness: equal offsets on both orders of a pair
        sing = _cases([ac.cycle_with_singletons(rng) for _ in range(150 if tier == "quick" else 1500)], [ac.PRESET[0]], False)
        for k, c in enumerate(sing):
            c["lex"] = 5 if k % 3 else 6
        cs += sing
        return cs
    out.append(Stage("partitions_lexicographic", "Trace_Part", partrun.run_partitions, lex_parts, _nt_part, partrun.init,
                     aux=aux))
    out.append(Stage("consistent_repeated", "Trace_Part", partrun.run_consistent,
                     lambda: _repeated(4, rng, 3000 if tier == "quick" else 30000), _nt_cons, partrun.init, aux=aux))
    if tier == "quick":
        out.append(Stage("consistent4", "Trace_Part", partrun.run_consistent,
                         lambda: rng.sample(_pairs(4), 4000), _nt_cons, partrun.init, aux=aux))
    else:
        out.append(Stage("partitions3x3", "Trace_Part", partrun.run_partitions,
                         lambda: _cases(grids.datasets(3, 3), SCHEMES, False), _nt_part, partrun.init, aux=aux))
        out.append(Stage("partitions4x2", "Trace_Part", partrun.run_partitions,
                         lambda: _cases(grids.datasets(4, 2), SCHEMES, False), _nt_part, partrun.init, aux=aux))
        out.append(Stage("random", "Trace_Part", partrun.run_partitions,
                         lambda: _cases([ac.random_dataset(rng, 5, 5, nmin=3) for _ in range(3000)],
                                        SCHEMES + ac.grid_sample(rng, 10), False), _nt_part, partrun.init, aux=aux))
    out += extras_common.c07_stages(tier, rng)      # specified behaviour outside the listed properties (drift only)
    return [s for s in out if not only or s.name == only]
