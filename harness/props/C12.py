"""C12 -- Borda orders elements by mean positional score, per the documented variants."""
from .. import grids
from . import algo_common as ac

PID = "C12"
RULE = ("case = one Borda run (positional and bucket-id variants); TLC recomputes the mean scores by cross-"
        "multiplication and requires the consensus order to be exactly the order of the means (ties iff equal); each "
        "dataset is also run with its rankings permuted and under another naming; non-trivial = >= 2 elements with "
        "different means, or a refusal case")
EXHAUSTIVE = {"quick": "all 700 datasets (3 elements, <=2 rankings) x 2 variants x 14 schemes (4 families, multiples, "
                       "non-family schemes)",
              "thorough": "all 18275 + 22648 datasets x 2 variants x rotating schemes"}
ASSUMPTIONS = ["families are read up to positive multiples (C19's equivalence)"]
FAM = [ac.P_UNI1, ac.P_UNI5, ac.P_IND1, ac.P_IND5]
SCHEMES = FAM + [m for s in FAM for m in ac.multiples(s, ks=(3,))] + \
          [ac.P_PSE1, ac.P_EXT,
           ([0, 4, 4, 0, 4, 4], [8, 8, 0, 8, 8, 0], 4),      # unifying B, other T
           ([0, 4, 4, 0, 0, 0], [4, 4, 0, 4, 4, 0], 4)]      # induced B, other T


def _nt(rec):
    return ac.n_elems(rec) >= 2


def _with_perm(dss, rng):
    out = []
    for D in dss:
        out.append(D)
        if len(D) > 1:
            P = list(D)
            rng.shuffle(P)
            out.append(P)
    return out


def equal_means(rng, count):
    """two elements with EQUAL mean scores obtained from DIFFERENT numbers of rankings (totals t and b*t over k and b*k
    rankings): a block of k rankings in which x is tied with y, then b-1 copies of the block without x"""
    out = []
    for _ in range(count):
        # k rankings per block, b blocks: (k, b) chosen where t/k and (b t)/(b k) are equal rationals whose naive float
        # evaluations total * (1/count) differ for most totals t (e.g. 5/3 vs 25/15)
        k, b = rng.choice([(3, 5), (3, 11), (5, 3), (5, 5), (5, 7), (5, 11), (3, 10), (2, 3), (4, 5)])
        block = []
        for _ in range(k):
            others = [3, 4, 5][:rng.randint(1, 3)]
            rng.shuffle(others)
            cut = rng.randint(0, len(others))
            r = [[e] for e in others[:cut]] + [[1, 2]] + [[e] for e in others[cut:]]
            if rng.random() < .3 and len(r) > 1:
                j = rng.randrange(len(r) - 1)
                r[j:j + 2] = [sorted(r[j] + r[j + 1])]
            block.append(r)
        D = [[list(bk) for bk in r] for r in block]
        for _ in range(b - 1):
            for r in block:
                D.append([bk2 for bk2 in ([e for e in bk if e != 1] for bk in r) if bk2])
        out.append(D)
    return out


def stages(tier, rng, only=None):
    cfgs = ["Borda", "BordaBid"]

    def by_library_factor():
        # the accepted families multiplied by the LIBRARY (k * s with k = 1/3, 2/3, 1/7, 3): penalties 0, 1/2 and 1 only,
        # so the ratios of the product to the family are the same float for every entry
        cs = ac.cases(grids.datasets(3, 2)[::2], cfgs, FAM, flags=(0,), all_schemes=True, namings=["ints", "letters"])
        for k, c in enumerate(cs):
            c["mulk"] = [(1, 3), (2, 3), (1, 7), (3, 1)][k % 4]
        return cs
    out = [ac.stage("grid3x2", PID, lambda: ac.cases(grids.datasets(3, 2), cfgs, SCHEMES, flags=(0,),
                                                     all_schemes=True,
                                                     namings=["ints", "letters", "collide", "intish", "mixedraw"]), _nt)]
    n_rand = 500 if tier == "quick" else 5000
    out.append(ac.stage("random", PID, lambda: ac.cases(_with_perm([ac.random_dataset(rng, 8, 6) for _ in range(n_rand)],
                                                                   rng),
                                                        cfgs, SCHEMES + ac.grid_sample(rng, 6), flags=(0, 1),
                                                        namings=["ints", "ints", "letters", "big"]), _nt))
    out.append(ac.stage("many_rankings", PID, lambda: ac.cases(
        [ac.random_dataset(rng, 4, 30, nmin=2) for _ in range(n_rand // 2)], cfgs, FAM, flags=(0,),
        namings=["ints", "letters"]), _nt))
    out.append(ac.stage("very_many_rankings", PID, lambda: ac.cases(
        [ac.many_rankings_dataset(rng) for _ in range(12 if tier == "quick" else 100)], cfgs, SCHEMES, flags=(0,),
        all_schemes=True, namings=["ints", "letters"]), _nt))
    out.append(ac.stage("larger", PID, lambda: ac.cases([ac.larger_dataset(rng) for _ in range(n_rand // 4)], cfgs, FAM,
                                                        flags=(0,), namings=["ints", "letters", "big"]), _nt))
    near = FAM + [([0, 4, 3, 0, 4, 3], [3, 3, 0, 3, 3, 0], 4), ([0, 4, 3, 0, 0, 0], [3, 3, 0, 0, 0, 0], 4), ac.P_PSE1]
    out.append(ac.stage("microscopic_penalties", PID, lambda: ac.scaled_cases(
        grids.datasets(3, 2)[::2], cfgs, near, 40, flags=(0,)), _nt))
    out.append(ac.stage("multiplied_by_the_library", PID, by_library_factor, _nt))
    out.append(ac.stage("equal_means", PID, lambda: ac.cases(equal_means(rng, n_rand // 2), cfgs, FAM, flags=(0,),
                                                             all_schemes=True, namings=["ints", "letters"]), _nt))
    if tier == "thorough":
        out.append(ac.stage("grid3x3", PID, lambda: ac.cases(grids.datasets(3, 3), cfgs, SCHEMES, flags=(0,)), _nt))
        out.append(ac.stage("grid4x2", PID, lambda: ac.cases(grids.datasets(4, 2), cfgs, SCHEMES, flags=(0,)), _nt))
    def bench():
        cs = ac.cases(grids.datasets(3, 2)[::9] + [ac.random_dataset(rng, 6, 5, nmin=2) for _ in range(40)],
                      ["Borda", "BordaBid"], SCHEMES, all_schemes=True, flags=(1,))
        for c in cs:
            c["bench"] = 1
        return cs
    out.append(ac.stage("bench_mode", PID, bench, _nt))
    # history: the same Borda object and the same dataset object serve first, the dataset is modified in place (1 or 3
    # operations) and serves again; the same Borda object first serves another dataset under the same or another scheme
    base = grids.datasets(3, 2)[::2] + [ac.random_dataset(rng, 6, 5, nmin=2) for _ in range(n_rand // 2)]
    out.append(ac.stage("reuse_after_mutation", PID, lambda: ac.reuse_mutate_cases(base, cfgs, SCHEMES, rng, flags=(0,)), _nt))
    out.append(ac.stage("reuse_other_dataset", PID, lambda: ac.reuse_other_cases(base, cfgs, SCHEMES, rng, flags=(0,),
                                                                                 reverse=True), _nt))

    def complete_first():
        # the same Borda object first serves the COMPLETED version of the dataset under the same scheme (every scheme is
        # accepted on complete data), then the incomplete dataset itself: families accepted, other schemes refused
        cs = []
        for k, D in enumerate(base):
            U = grids.universe(D)
            D0 = [r + [sorted(set(U) - {e for b in r for e in b})] if set(U) - {e for b in r for e in b} else r for r in D]
            if D0 == D:
                continue
            for ci, cfg in enumerate(cfgs):
                sch = list(SCHEMES[(k + ci) % len(SCHEMES)])
                cs.append({"D": D, "naming": ["ints", "letters"][k % 2], "sch": sch, "cfg": cfg, "flag": 0,
                           "env": "nocplex", "kseed": k, "reuse": {"kind": "other", "D0": D0, "sch0": sch}})
        return cs
    out.append(ac.stage("complete_first", PID, complete_first, _nt))
    return [s for s in out if not only or s.name == only]
