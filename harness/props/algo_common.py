"""Case builders shared by the properties decided on algorithm runs (Trace_Algo)."""
from .. import core, grids, algorun
from ..framework import Stage

UNIT = 4
PRESET = [(B, T, UNIT) for _, B, T in core.presets(UNIT)]
P_UNI1, P_IND1, P_PSE1, P_UNI5, P_IND5, P_PSE5, P_EXT = PRESET
NAMINGS3 = ["ints", "letters", "mixed1", "digits", "mixed3"]


def multiples(s, ks=(2, 3)):
    B, T, u = s
    out = []
    for k in ks:
        out.append(([b * k for b in B], [t * k for t in T], u))
    # the half: double the unit
    out.append((list(B), list(T), u * 2))
    return out


def grid_sample(rng, k, unit=UNIT):
    return [(B, T, unit) for B, T in rng.sample(core.grid_schemes(), k)]


def random_dataset(rng, nmax=8, mmax=6, nmin=1):
    n = rng.randint(nmin, nmax)
    m = rng.randint(1, mmax)
    miss = rng.choice([0, 0, .3, .6])
    D = []
    for _ in range(m):
        elems = [e for e in range(1, n + 1) if rng.random() >= miss]
        rng.shuffle(elems)
        r = []
        for e in elems:
            if r and rng.random() < .4:
                r[-1].append(e)
            else:
                r.append([e])
        D.append([sorted(b) for b in r])
    if rng.random() < .15:
        D.append([list(b) for b in D[0]])
    if rng.random() < .15:
        D.insert(rng.randrange(len(D) + 1), [])
    if not grids.universe(D):
        D.append([[1]])
    # renumber so that the universe is 1..n (Trace specs index per-element arrays by element number)
    U = grids.universe(D)
    ren = {e: k + 1 for k, e in enumerate(U)}
    return [[sorted(ren[e] for e in b) for b in r] for r in D]


def sparse_dataset(rng, nmax=6):
    """Datasets in which some rankings miss whole groups of elements (separates projection of the dataset on a
    component from restriction of the cost table)."""
    n = rng.randint(3, nmax)
    m = rng.randint(2, 5)
    D = []
    for _ in range(m):
        k = rng.randint(0, n)
        elems = rng.sample(range(1, n + 1), k)
        r = []
        for e in elems:
            if r and rng.random() < .35:
                r[-1].append(e)
            else:
                r.append([e])
        D.append([sorted(b) for b in r])
    if not grids.universe(D):
        D.append([[1]])
    U = grids.universe(D)
    ren = {e: k + 1 for k, e in enumerate(U)}
    return [[sorted(ren[e] for e in b) for b in r] for r in D]


def cases(datasets, configs, schemes, flags=(1, 0), namings=("ints", "letters"), env="nocplex", every=None,
          kseeds=(0,), all_schemes=False):
    """Cross product with rotation: every dataset meets every config; schemes and namings rotate with the
    dataset index unless all_schemes. `every` = dict cfg -> stride (sub-sample datasets for costly configs)."""
    out = []
    for ci, cfg in enumerate(configs):
        stride = (every or {}).get(cfg, 1)
        e = "standin" if cfg in algorun.NEEDS_CPLEX else env
        for k, D in enumerate(datasets):
            if k % stride:
                continue
            schs = schemes if all_schemes else [schemes[(k + ci) % len(schemes)]]
            for s in schs:
                for f in flags:
                    if cfg == "ExactCplex(opt)" and f == 0:
                        continue        # documented IncompatibleArgumentsException
                    for ks in kseeds:
                        out.append({"D": D, "naming": namings[(k // 2 + ci) % len(namings)], "sch": list(s),
                                    "cfg": cfg, "flag": f, "env": e, "kseed": ks + k})
    return out


def stage(name, prop, cases_fn, nontrivial=None, extra_aux=None, procs=None):
    aux = {"prop": prop, "auxlogged": 1}
    if extra_aux:
        aux.update(extra_aux)
    return Stage(name, "Trace_Algo", algorun.run_case, cases_fn, nontrivial or (lambda r: r["out"] == "consensus"),
                 algorun.init, aux=aux, procs=procs, chunk=10000)


def n_elems(rec):
    return len(grids.universe(rec["D"]))
