"""Case builders shared by the properties decided on algorithm runs (Trace_Algo)."""
from .. import core, grids, algorun
from ..framework import Stage

UNIT = 4
PRESET = [(B, T, UNIT) for _, B, T in core.presets(UNIT)]
P_UNI1, P_IND1, P_PSE1, P_UNI5, P_IND5, P_PSE5, P_EXT = PRESET
NAMINGS3 = ["ints", "letters", "mixed1", "digits", "mixed3", "mixedraw", "intish"]


def multiples(s, ks=(2, 3)):
    B, T, u = s
    out = []
    for k in ks:
        out.append(([b * k for b in B], [t * k for t in T], u))
    # the half: double the unit
    out.append((list(B), list(T), u * 2))
    return out


def grid_sample(rng, k, unit=UNIT):
    return [(B, T, unit) for B, T in rng.sample(core.grid_schemes(), k)]


def eleven_plus_dataset(rng):
    """11-12 elements (two-digit internal ids), near-unanimous rankings so that the exact solvers answer at once"""
    n = rng.randint(11, 12)
    base = rng.sample(range(1, n + 1), n)
    D = []
    for _ in range(rng.randint(2, 4)):
        r = [[e] for e in base]
        for _ in range(rng.randint(0, 2)):
            j = rng.randrange(n - 1)
            if rng.random() < .5 and len(r) > j + 1:
                r[j], r[j + 1] = r[j + 1], r[j]
            elif len(r) > j + 1:
                r[j:j + 2] = [sorted(r[j] + r[j + 1])]
        D.append(r)
    return D


def many_rankings_dataset(rng, m=None, complete=None):
    """2-4 elements, 257-320 rankings (thresholds such as 256 only show with that many rankings)"""
    n = rng.randint(2, 4)
    m = m or rng.randint(257, 320)
    complete = rng.random() < .5 if complete is None else complete
    base = [random_dataset(rng, n, 1, nmin=n)[0] for _ in range(4)]
    if complete:
        base = [r for r in base if len(grids.dom(r)) == n] or [[[e] for e in range(1, n + 1)]]
    D = [base[rng.randrange(len(base))] for _ in range(m)]
    if not complete:
        D[rng.randrange(m)] = [[1]]
    U = grids.universe(D)
    ren = {e: k + 1 for k, e in enumerate(U)}
    return [[sorted(ren[e] for e in b) for b in r] for r in D]


def larger_dataset(rng, nmax=12, mmax=40):
    """beyond the small scope: up to 12 elements and 40 rankings (long tie runs, many duplicates)"""
    D = random_dataset(rng, nmax, mmax, nmin=6)
    if rng.random() < .5:
        D = D + [D[rng.randrange(len(D))] for _ in range(rng.randint(1, 12))]
    return D


def random_dataset(rng, nmax=8, mmax=6, nmin=1):
    n = rng.randint(nmin, nmax)
    m = rng.randint(1, mmax)
    miss = rng.choice([0, 0, .3, .6])
    D = []
    for _ in range(m):
        elems = [e for e in range(1, n + 1) if rng.random() >= miss]
        rng.shuffle(elems)
        r = []
        for e in elems:
            if r and rng.random() < .4:
                r[-1].append(e)
            else:
                r.append([e])
        D.append([sorted(b) for b in r])
    if rng.random() < .15:
        D.append([list(b) for b in D[0]])
    if rng.random() < .15:
        D.insert(rng.randrange(len(D) + 1), [])
    if not grids.universe(D):
        D.append([[1]])
    # renumber so that the universe is 1..n (Trace specs index per-element arrays by element number)
    U = grids.universe(D)
    ren = {e: k + 1 for k, e in enumerate(U)}
    return [[sorted(ren[e] for e in b) for b in r] for r in D]


def sparse_dataset(rng, nmax=6):
    """Datasets in which some rankings miss whole groups of elements (separates projection of the dataset on a
    component from restriction of the cost table)."""
    n = rng.randint(3, nmax)
    m = rng.randint(2, 5)
    D = []
    for _ in range(m):
        k = rng.randint(0, n)
        elems = rng.sample(range(1, n + 1), k)
        r = []
        for e in elems:
            if r and rng.random() < .35:
                r[-1].append(e)
            else:
                r.append([e])
        D.append([sorted(b) for b in r])
    if not grids.universe(D):
        D.append([[1]])
    U = grids.universe(D)
    ren = {e: k + 1 for k, e in enumerate(U)}
    return [[sorted(ren[e] for e in b) for b in r] for r in D]


def cases(datasets, configs, schemes, flags=(1, 0), namings=("ints", "letters"), env="nocplex", every=None,
          kseeds=(0,), all_schemes=False):
    """Cross product with rotation: every dataset meets every config; schemes and namings rotate with the
    dataset index unless all_schemes. `every` = dict cfg -> stride (sub-sample datasets for costly configs)."""
    out = []
    for ci, cfg in enumerate(configs):
        stride = (every or {}).get(cfg, 1)
        e = "standin" if cfg in algorun.NEEDS_CPLEX else env
        for k, D in enumerate(datasets):
            if k % stride:
                continue
            schs = schemes if all_schemes else [schemes[(k + ci) % len(schemes)]]
            for s in schs:
                for f in flags:
                    if cfg == "ExactCplex(opt)" and f == 0:
                        continue        # documented IncompatibleArgumentsException
                    for ks in kseeds:
                        out.append({"D": D, "naming": namings[(k // 2 + ci) % len(namings)], "sch": list(s),
                                    "cfg": cfg, "flag": f, "env": e, "kseed": ks + k, "entry": (k + ci) % 7,
                                    "schemeform": (k // 3 + ci) % 5})
    return out


def stage(name, prop, cases_fn, nontrivial=None, extra_aux=None, procs=None):
    aux = {"prop": prop, "auxlogged": 1, "biofull": 0}
    if extra_aux:
        aux.update(extra_aux)
    return Stage(name, "Trace_Algo", algorun.run_case, cases_fn, nontrivial or (lambda r: r["out"] == "consensus"),
                 algorun.init, aux=aux, procs=procs, chunk=10000, killable=algorun.KILLABLE)


def n_elems(rec):
    return len(grids.universe(rec["D"]))


# ----------------------------------------------------------------------------- shapes aimed at corner cases
TINY = [([0, 4, 2, 0, 4, 2], [2, 2, 0, 2, 2, 0], 16384), ([0, 4, 4, 0, 0, 0], [4, 4, 0, 0, 0, 0], 16384),
        ([0, 4, 2, 0, 4, 0], [2, 2, 0, 2, 2, 0], 16384), ([0, 8, 3, 1, 2, 1], [5, 5, 0, 2, 2, 1], 16384)]


def cyclic_dataset(rng, nmin=3, nmax=5, incomplete=False):
    """Condorcet cycles: the rotations of one order, with some adjacent pairs tied, optional missing elements,
    duplicates and an extra random ranking -- the datasets on which components are not trivially tied."""
    n = rng.randint(nmin, nmax)
    base = rng.sample(range(1, n + 1), n)
    D = []
    for k in range(n):
        rot = base[k:] + base[:k]
        r = []
        for e in rot:
            if r and rng.random() < .25:
                r[-1].append(e)
            else:
                r.append([e])
        if incomplete and rng.random() < .6:
            drop = rng.choice(rot)
            r = [[e for e in b if e != drop] for b in r]
            r = [b for b in r if b]
        D.append([sorted(b) for b in r])
    if rng.random() < .3:
        D.append(random_dataset(rng, n, 1, nmin=n)[0])
    if rng.random() < .2:
        D.append([])
    if incomplete and all(len(grids.dom(r)) == n for r in D):
        D[0] = [b for b in ([e for e in b if e != base[0]] for b in D[0]) if b]
    U = grids.universe(D)
    ren = {e: k + 1 for k, e in enumerate(U)}
    return [[sorted(ren[e] for e in b) for b in r] for r in D]


def two_cycles(rng):
    """two cyclic blocks of sizes 4 and 3 (in a random order), every ranking placing the first block before the
    second: two non-trivial components of different sizes"""
    a, b = [1, 2, 3, 4], [5, 6, 7]
    rng.shuffle(a)
    rng.shuffle(b)
    first_big = rng.random() < .5
    D = []
    for k in range(12):
        ra = a[k % 4:] + a[:k % 4]
        rb = b[k % 3:] + b[:k % 3]
        seq = (ra + rb) if first_big else (rb + ra)
        D.append([[e] for e in seq])
    if rng.random() < .5:
        D = D[:rng.choice([6, 8, 12])]
    return D


def reuse_mutate_cases(dss, configs, schemes, rng, flags=(1,), every=None, env="nocplex", all_ops=False):
    """the SAME algorithm and dataset objects are used, the dataset is modified in place, then the measured run"""
    out = []
    for ci, cfg in enumerate(configs):
        stride = (every or {}).get(cfg, 1)
        e = "standin" if cfg in algorun.NEEDS_CPLEX else env
        for k, D in enumerate(dss):
            if k % stride:
                continue
            U = grids.universe(D)
            ops = []
            if [] in D and len(D) > 1:
                ops.append({"op": "remove_empty"})
            if len(U) >= 2:
                ops.append({"op": "remove_elements", "S": [U[(k + ci) % len(U)]]})
            ops.append({"op": "remove_rate", "p": 1, "q": 2})
            seqs = [[op] for op in (ops if all_ops else [ops[(k + ci) % len(ops)]])]
            if k % 4 == 0 and len(ops) >= 2:
                seqs.append([ops[(k + j) % len(ops)] for j in range(3)])        # three operations in a row
            for seq in seqs:
                for f in flags:
                    if cfg == "ExactCplex(opt)" and f == 0:
                        continue
                    out.append({"D": D, "naming": ["ints", "letters"][k % 2],
                                "sch": list(schemes[(k + ci) % len(schemes)]), "cfg": cfg, "flag": f, "env": e,
                                "kseed": k, "entry": (k + ci) % 4, "reuse": {"kind": "mutate", "ops": seq}})
    return out


MIXEDMAG = [([0, 16384, 2, 0, 16384, 2], [2, 2, 0, 2, 2, 0], 16384), ([0, 16384, 16384, 0, 3, 1], [16384, 16384, 0, 2, 2, 0], 16384),
            ([0, 4, 2, 0, 1000000, 2], [2, 2, 0, 2, 2, 0], 4), ([0, 1000000, 3, 0, 2, 1], [1, 1, 0, 1, 1, 0], 1)]
QUARTER = ([0, 4, 1, 0, 4, 1], [1, 1, 0, 1, 1, 0], 4)      # unifying, p = 1/4: ties are cheap


def reuse_scheme_cases(dss, configs, schemes, rng, flags=(1,), every=None, env="nocplex"):
    """the SAME dataset and algorithm objects first serve a positive multiple of the scheme (or another scheme), whose
    score is read; then the measured run"""
    out = []
    for ci, cfg in enumerate(configs):
        stride = (every or {}).get(cfg, 1)
        e = "standin" if cfg in algorun.NEEDS_CPLEX else env
        for k, D in enumerate(dss):
            if k % stride:
                continue
            B, T, u = schemes[(k + ci) % len(schemes)]
            sch0 = [([2 * b for b in B], [2 * t for t in T], u), (list(B), list(T), u * 4096),
                    schemes[(k + ci + 1) % len(schemes)]][k % 3]
            for f in flags:
                if cfg == "ExactCplex(opt)" and f == 0:
                    continue
                out.append({"D": D, "naming": ["ints", "letters"][k % 2], "sch": [list(B), list(T), u], "cfg": cfg,
                            "flag": f, "env": e, "kseed": k, "reuse": {"kind": "scheme", "sch0": [list(sch0[0]),
                                                                                               list(sch0[1]), sch0[2]]}})
    return out


HARD_SCHEMES = [P_UNI1, P_UNI5, P_IND1]


def hard_local_corpus():
    """datasets (found once by tools/find_hard_local.py, with the library only as a filter) on which the default local
    search ends above the consensus of Borda or Copeland; each comes with the scheme it was found under"""
    import json
    import os
    p = os.path.join(os.path.dirname(os.path.dirname(os.path.abspath(__file__))), "corpus", "hard_local.json")
    if not os.path.exists(p):
        return []
    return [(e["D"], HARD_SCHEMES[e["sch"]]) for e in json.load(open(p))]


def corpus_cases(configs, flags=(1, 0), reuse=None):
    out = []
    for ci, cfg in enumerate(configs):
        for k, (D, s) in enumerate(hard_local_corpus()):
            for f in flags:
                c = {"D": D, "naming": ["ints", "letters"][k % 2], "sch": list(s), "cfg": cfg, "flag": f, "env": "nocplex",
                     "kseed": k}
                if reuse == "refused_first":
                    U = grids.universe(D)
                    c["reuse"] = {"kind": "other", "D0": D + [[[U[0]]]], "sch0": [P_PSE5, P_EXT][k % 2]}
                elif reuse == "other":
                    c["reuse"] = {"kind": "other", "D0": [list(reversed(r)) for r in D], "sch0": list(s)}
                out.append(c)
    return out


def simple_reuse_cases(dss, configs, schemes, reuse, flags=(1, 0), namings=("ints", "letters"), env="nocplex"):
    """cases() with the same reuse record on every case (kinds 'flagflip', 'prealg')"""
    out = cases(dss, configs, schemes, flags=flags, namings=list(namings), env=env)
    for c in out:
        c["reuse"] = dict(reuse)
    return out


def symmetric_datasets():
    """small datasets with several optimal consensus / several best local optima (opposite or rotated opinions)"""
    out = []
    for p in grids.orders(3):
        rev = list(reversed(p))
        out.append([p, rev])
        out.append([p, rev, p, rev])
    out += [[[[1], [2]], [[2], [1]]], [[[1], [2], [3]], [[2], [3], [1]], [[3], [1], [2]]],
            [[[1, 2]], [[1], [2]], [[2], [1]]], [[[1], [2, 3]], [[2, 3], [1]]]]
    return out


def refused_first_cases(dss, configs, schemes, flags=(1, 0)):
    """the SAME algorithm object is first given an incomplete dataset under a scheme its starting algorithms refuse
    (the call raises), then the measured run under a scheme they accept"""
    out = []
    for ci, cfg in enumerate(configs):
        for k, D in enumerate(dss):
            U = grids.universe(D)
            D0 = [r for r in D] + [[[U[0]]]] if len(U) > 1 else D
            for f in flags:
                out.append({"D": D, "naming": ["ints", "letters"][k % 2], "sch": list(schemes[(k + ci) % len(schemes)]),
                            "cfg": cfg, "flag": f, "env": "nocplex", "kseed": k,
                            "reuse": {"kind": "other", "D0": D0, "sch0": [P_PSE5, P_EXT][k % 2]}})
    return out


def reuse_other_cases(dss, configs, schemes, rng, flags=(1,), every=None, env="nocplex", reverse=False):
    """the SAME algorithm object first serves another (dataset, scheme) whose score is read, then the measured run"""
    out = []
    for ci, cfg in enumerate(configs):
        stride = (every or {}).get(cfg, 1)
        e = "standin" if cfg in algorun.NEEDS_CPLEX else env
        for k, D in enumerate(dss):
            if k % stride:
                continue
            D0 = dss[(k * 7 + 3) % len(dss)]
            if reverse and k % 3:
                D0 = [list(reversed(r)) for r in D]          # same universe, opposite opinions
            same = False
            if k % 4 == 1 and len(D) > 1:
                # the SAME rankings in another order (an equal dataset whose elements are numbered differently), same scheme
                D0 = list(reversed(D))
                same = True
            for f in flags:
                if cfg == "ExactCplex(opt)" and f == 0:
                    continue
                out.append({"D": D, "naming": ["ints", "letters"][k % 2], "sch": list(schemes[(k + ci) % len(schemes)]),
                            "cfg": cfg, "flag": f, "env": e, "kseed": k,
                            "reuse": {"kind": "other", "D0": D0,
                                      "sch0": list(schemes[(k + ci + (0 if same else k % 2)) % len(schemes)])}})
    return out


def cycle_plus(rng):
    """a Condorcet cycle of 3-4 elements plus 1-2 elements that every ranking places before (or after) the cycle: a
    non-trivial component that does not contain every element (element 1 or the last one is outside the cycle, so that
    under a 'mixed' naming the component may consist of digit names only)"""
    k = rng.randint(3, 4)
    extra = rng.randint(1, 2)
    outside_first = rng.random() < .5
    if outside_first:
        out_elems = list(range(1, extra + 1))
        cyc = list(range(extra + 1, extra + k + 1))
    else:
        cyc = list(range(1, k + 1))
        out_elems = list(range(k + 1, k + extra + 1))
    rng.shuffle(cyc)
    D = []
    for j in range(k):
        rot = cyc[j:] + cyc[:j]
        r = [[e] for e in rot]
        o = [[e] for e in out_elems] if rng.random() < .7 else [sorted(out_elems)]
        D.append(o + r if outside_first else r + o)
    if rng.random() < .3:
        D.append(D[0])
    return D


# two-limb schemes H*(B,T) + (B2,T2): penalties around 2^26, scores around 1e9-1e10 (beyond TLC's integers; the two
# limbs are evaluated separately). (B2,T2) obeys the same equalities so that the sum is a valid scheme.
HUGE_H = 2 ** 26
HUGE = [(([0, 2, 1, 0, 2, 1], [1, 1, 0, 1, 1, 0], 1), ([0, 0, 1, 0, 0, 1], [1, 1, 0, 0, 0, 0])),
        (([0, 2, 2, 0, 0, 0], [2, 2, 0, 0, 0, 0], 1), ([0, 1, 0, 0, 1, 0], [0, 0, 0, 1, 1, 1])),
        (([0, 1, 1, 0, 1, 0], [1, 1, 0, 1, 1, 0], 1), ([0, 1, 1, 0, 0, 1], [0, 0, 0, 0, 0, 1]))]


def huge_cases(dss, configs, flags=(0, 1), namings=("ints", "letters")):
    out = []
    for ci, cfg in enumerate(configs):
        for k, D in enumerate(dss):
            (s1, s2) = HUGE[(k + ci) % len(HUGE)]
            for f in flags:
                out.append({"D": D, "naming": namings[k % len(namings)], "sch": [list(s1[0]), list(s1[1]), 1],
                            "sch2": [list(s2[0]), list(s2[1])], "H": HUGE_H, "cfg": cfg, "flag": f, "env": "nocplex",
                            "kseed": k})
    return out


def lex_cases(dss, configs, flags=(1,), namings=("ints", "letters"), every=None, env="nocplex"):
    """cases under the lexicographic schemes of core.LEX (see there)"""
    out = cases(dss, configs, [PRESET[0]], flags=flags, namings=list(namings), every=every, env=env)
    for k, c in enumerate(out):
        c["lex"] = k % len(core.LEX)
    return out


def scaled_cases(dss, configs, schemes, uexp, flags=(1,), namings=("ints", "letters"), every=None):
    """same as cases() but the penalties given to the library are q * 2**(-uexp) (uexp = 40: ~1e-12, uexp = -70:
    ~1e21): magnitudes far outside TLC's integers, which only sees the integers q (all clauses used on these
    cases are invariant under scaling of the scheme)"""
    out = cases(dss, configs, [(B, T, 1) for (B, T, _) in schemes], flags=flags, namings=list(namings), every=every)
    for c in out:
        c["uexp"] = uexp
    return out


def cycle_plus_sparse(rng):
    """cycle_plus with 2-3 extra rankings that rank only the outside elements: several rankings miss the whole
    non-trivial component"""
    D = cycle_plus(rng)
    U = grids.universe(D)
    first, last = D[0][0], D[0][-1]
    outside = first if len(first) > 1 or first[0] in (1, 2) and len(D[0]) > 4 else last
    k = len([b for b in D[0]])
    # outside elements: those not in the rotating block (the block has 3-4 singletons that change place)
    fixed = [e for e in U if all(grids.dom(r) and [b for b in r if e in b][0] == [b for b in D[0] if e in b][0] and
                                 r.index([b for b in r if e in b][0]) == D[0].index([b for b in D[0] if e in b][0])
                                 for r in D)]
    if not fixed:
        return D
    for _ in range(rng.randint(2, 3)):
        D.append([[e] for e in fixed] if rng.random() < .5 else [sorted(fixed)])
    return D


def lookalike_datasets(rng, count=300):
    """datasets containing two DIFFERENT rankings that print alike under the 'weird' naming (a name such as 'a, b'
    alone in a bucket prints like the tied names 'a' and 'b'), plus one or two other rankings"""
    names = core.naming("weird")
    groups = {}
    prs = [r for r in grids.partial(4) if r]
    for r in prs:
        for style in (0, 1):
            view = str([sorted(str(names[x]) for x in b) for b in r]).replace("'", "") if style == 0 else \
                "[" + ", ".join("{" + ", ".join(sorted(str(names[x]) for x in b)) + "}" for b in r) + "]"
            groups.setdefault((style, view), []).append(r)
    pairs = []
    for rs in groups.values():
        for i in range(len(rs)):
            for j in range(i + 1, len(rs)):
                if (rs[i], rs[j]) not in pairs:
                    pairs.append((rs[i], rs[j]))
    out = []
    for k in range(count):
        a, b = pairs[k % len(pairs)]
        D = [a, b] + [prs[rng.randrange(len(prs))] for _ in range(rng.randint(1, 2))]
        if k % 3 == 0:
            D = [a, a, b] + D[2:]
        out.append(D)
    return out


def majority_datasets():
    """[p, p, q], [p, q, q] and [p, p, q, r] for all orders p, q, r of three elements (ties included): one ranking is
    strictly better than another one; with the 'weird' naming some of these rankings PRINT alike"""
    orders = grids.orders(3)
    out = []
    for p in orders:
        for q in orders:
            if p != q:
                out.append([p, p, q])
                out.append([p, q, q])
    return out


def tied_heavy_dataset(rng, with_empty=True):
    """3-4 elements, 3-4 rankings of at most two (large) buckets each missing at most one element, plus an empty
    ranking: the all-tied ranking is often the best candidate"""
    n = rng.randint(3, 4)
    D = []
    for _ in range(rng.randint(3, 4)):
        elems = list(range(1, n + 1))
        if rng.random() < .7:
            elems.remove(rng.choice(elems))
        rng.shuffle(elems)
        cut = rng.randint(1, len(elems))
        r = [sorted(elems[:cut])] + ([sorted(elems[cut:])] if elems[cut:] else [])
        D.append(r)
    if with_empty:
        D.insert(rng.randrange(len(D) + 1), [])
    U = grids.universe(D)
    ren = {e: k + 1 for k, e in enumerate(U)}
    return [[sorted(ren[e] for e in b) for b in r] for r in D]


def _flat_positions(D):
    """flattened positions matrix as the library lays it out (ids by first appearance, ints iterate in increasing
    order inside a bucket): only used to PICK pairs of datasets, never as an expected value"""
    ids = {}
    for r in D:
        for b in r:
            for e in sorted(b):
                ids.setdefault(e, len(ids))
    n, m = len(ids), len(D)
    mat = [[-1] * m for _ in range(n)]
    for j, r in enumerate(D):
        pos = 0
        for b in r:
            for e in b:
                mat[ids[e]][j] = pos
            pos += len(b)
    return (n, m), tuple(x for row in mat for x in row)


def transposed_pairs(limit=400):
    """pairs of datasets of different shapes (2 elements x 3 rankings, 3 elements x 2 rankings, ...) whose positions
    matrices have the same flattened content: a cache keyed by the content without the shape confuses them"""
    groups = {}
    for D in grids.datasets(2, 3) + grids.datasets(3, 2):
        shape, flat = _flat_positions(D)
        groups.setdefault(flat, {}).setdefault(shape, D)
    out = []
    for flat, by_shape in sorted(groups.items()):
        shapes = sorted(by_shape)
        for a in shapes:
            for b in shapes:
                if a != b:
                    out.append((by_shape[a], by_shape[b]))
    return out[:limit]


def pair_sequence_cases(pairs, configs, schemes, flags=(1,)):
    """the first dataset of each pair is served first (same algorithm object, same scheme), the second is measured"""
    out = []
    for ci, cfg in enumerate(configs):
        for k, (A, B) in enumerate(pairs):
            s = schemes[(k + ci) % len(schemes)]
            for f in flags:
                out.append({"D": B, "naming": "ints", "sch": list(s), "cfg": cfg, "flag": f,
                            "env": "standin" if cfg in algorun.NEEDS_CPLEX else "nocplex", "kseed": k, "entry": 0,
                            "reuse": {"kind": "other", "D0": A, "sch0": list(s)}})
    return out


def cycle_with_singletons(rng):
    """a Condorcet cycle (rotations of one order of 3-4 elements) plus one single-element ranking per element, in a
    random overall order: every pair of elements is 'missing one of the two' in exactly two rankings, symmetrically"""
    n = rng.randint(3, 4)
    base = rng.sample(range(1, n + 1), n)
    comp = [[[e] for e in base[k:] + base[:k]] for k in range(n)]
    alone = [[[e]] for e in rng.sample(base, n)]
    D = alone + comp if rng.random() < .5 else comp + alone
    if rng.random() < .3:
        rng.shuffle(D)
    return D


def tied_first(rng):
    """cycle_plus preceded by a ranking in which every element is tied: the internal ids are then assigned in the
    iteration order of one big set, which a projection of that bucket on a component need not preserve"""
    D = cycle_plus(rng)
    U = grids.universe(D)
    big = [sorted(U)] if rng.random() < .6 else [sorted(U[:len(U) // 2 + 1]), sorted(U[len(U) // 2 + 1:])]
    return [[b for b in big if b]] + D


def wide_cases(rng, count, cfgs, flags=(1,), width=(1001, 1040), complete_only=False):
    """datasets of a thousand elements and more: a small 'hard' core (corpus of datasets on which the local search ends
    in different local optima depending on the start) between three common leading elements and a long common tail, so
    that all the rankings agree on their first and last elements and differ only in the middle"""
    import json
    import os
    cdir = os.path.join(os.path.dirname(os.path.dirname(__file__)), "corpus")
    # start_sensitive: complete datasets whose FIRST ranking is a start from which the local search ends above another
    # input ranking (picked with the library by tools/find_start_sensitive.py; the order of the rankings matters)
    sens = json.load(open(os.path.join(cdir, "start_sensitive.json")))
    # the same number of buckets in every ranking: the common tail then has the same bucket indices everywhere
    sens = [e for e in sens if len({len(r) for r in e["D"]}) == 1] or sens
    corpus = json.load(open(os.path.join(cdir, "hard_local.json")))
    out = []
    k = 0
    while len(out) < count and k < 50 * count:
        k += 1
        if k % 4:
            ent = sens[rng.randrange(len(sens))]
            D = [list(r) for r in ent["D"]]
        else:
            ent = corpus[rng.randrange(len(corpus))]
            D = [list(r) for r in ent["D"] if r]
            rng.shuffle(D)
        U = grids.universe(D)
        if len(D) < 2 or (complete_only and any(grids.dom(r) != U for r in D)):
            continue
        n = rng.randint(*width)
        nc = len(U)
        remap = {e: 3 + j + 1 for j, e in enumerate(U)}
        tail = list(range(3 + nc + 1, n + 1))
        tail_b = [[e] for e in tail] if rng.random() < .7 else [tail[:5]] + [[e] for e in tail[5:]]
        wide = [[[1], [2], [3]] + [[remap[e] for e in b] for b in r] + tail_b for r in D]
        for cfg in cfgs:
            for flag in flags:
                out.append({"n": n, "D": wide, "cfg": cfg, "flag": flag, "sch": list(HARD_SCHEMES[ent["sch"]]),
                            "how": len(out), "off": [0, 0, 100][len(out) % 3], "form": len(out) % 4})
    return out


def wide_stage(name, prop, cases_fn, chunk=4):
    from .. import widerun
    return Stage(name, "Trace_Wide", widerun.run_wide, cases_fn, lambda r: r["out"] in ("consensus", "score"),
                 widerun.init, aux={"prop": prop}, chunk=chunk, procs=8)


def wide_score_cases(rng, count):
    """a candidate with ties against wide rankings with ties and missing elements (C01 on a thousand elements)"""
    out = []
    for k in range(count):
        n = rng.randint(1001, 1030)

        def rk(missing):
            elems = list(range(1, n + 1))
            rng.shuffle(elems)
            if missing:
                elems = elems[:rng.randint(n // 2, n)]
            r, cur = [], []
            for e in elems:
                cur.append(e)
                if rng.random() < .7:
                    r.append(cur)
                    cur = []
            if cur:
                r.append(cur)
            return r
        D = [rk(True) for _ in range(rng.randint(1, 3))]
        if not any(1 in b for r in D for b in r):
            D[0].append([1])
        c = rk(False)
        out.append({"n": n, "D": D, "c": c, "cfg": "score", "sch": list([P_UNI5, P_PSE5, P_EXT, P_IND1][k % 4]), "how": k,
                    "off": 0, "form": k % 4})
    return out


# schemes in which exactly ONE of the penalties that concern unranked elements is non-zero: a shortcut "this scheme ignores
# unranked elements" that forgets one of them shows on exactly one of these
ONEHOT = [([0, 1, 1, 0, 0, 3], [1, 1, 0, 0, 0, 0], 1), ([0, 1, 1, 0, 3, 0], [1, 1, 0, 0, 0, 0], 1),
          ([0, 1, 1, 3, 3, 0], [1, 1, 0, 0, 0, 0], 1), ([0, 1, 1, 0, 0, 0], [1, 1, 0, 3, 3, 0], 1),
          ([0, 1, 1, 0, 0, 0], [1, 1, 0, 0, 0, 3], 1), ([0, 2, 0, 0, 0, 5], [0, 0, 0, 0, 0, 0], 1),
          ([0, 2, 0, 0, 0, 0], [0, 0, 0, 0, 0, 5], 1)]


def similar_permutations(rng, n, m, swaps=6, late=False):
    """m complete rankings without ties over 1..n that differ from the identity by a few adjacent transpositions (when
    `late`, only among the last third of the elements: the elements that get the highest internal ids)"""
    out = []
    for _ in range(m):
        p = list(range(1, n + 1))
        for _s in range(rng.randint(0, swaps)):
            i = rng.randrange(2 * n // 3, n - 1) if late else rng.randrange(n - 1)
            p[i], p[i + 1] = p[i + 1], p[i]
        out.append([[e] for e in p])
    return out


def permutation_cases(rng, count, cfgs, flags=(1,), sizes=(17, 18, 24, 32, 40, 64, 100)):
    """complete datasets without ties, 17 elements and more, similar rankings (shortcuts taken on is_complete and
    without_ties, narrow integer types: 17 elements give 136 pairs, more than a signed byte holds)"""
    out = []
    for k in range(count):
        n = sizes[k % len(sizes)]
        D = similar_permutations(rng, n, rng.randint(2, 6), swaps=rng.choice([2, 6, 20]))
        if k % 3 == 0:
            D.append([list(b) for b in D[0]])          # a duplicated ranking
        if k % 5 == 0:
            D.append(list(reversed(D[0])))             # and an opposite one
        for cfg in cfgs:
            for flag in flags:
                out.append({"n": n, "D": D, "cfg": cfg, "flag": flag, "sch": list([P_UNI1, P_UNI5, P_PSE5, P_IND1][k % 4]),
                            "how": k, "off": [0, 100][k % 2], "form": k % 4})
    return out


def wide_eq_stage(name, cases_fn):
    from .. import widerun
    return Stage(name, "Trace_Wide", widerun.run_wide_eq, cases_fn, lambda r: r["out"] == "ok" and r["a"] != r["b"],
                 widerun.init, aux={"prop": "C17"}, chunk=20, procs=8)


def wide_eq_cases(rng, count, sizes):
    """pairs of datasets of complete rankings without ties: equal, equal up to the order of the rankings, or different
    only by one adjacent transposition (in the middle of a wide ranking / among the last elements)"""
    out = []
    for k in range(count):
        n = sizes[k % len(sizes)]
        a = similar_permutations(rng, n, rng.randint(1, 3), swaps=4)
        b = [[list(x) for x in r] for r in a]
        kind = k % 4
        if kind == 1:
            b = list(reversed(b))
        elif kind >= 2:
            r = b[rng.randrange(len(b))]
            i = rng.randrange(n // 3, 2 * n // 3) if kind == 2 else rng.randrange(max(n - 8, 1), n - 1)
            r[i], r[i + 1] = r[i + 1], r[i]
        out.append({"n": n, "a": a, "b": b, "how": k, "off": [0, 100][k % 2]})
    return out


# tie penalties that are a fraction (1/8, 1/4, 1/2, 3/4) or a multiple (2) of the order penalty: with 4 rankings and more,
# the cost of the majority order of a pair can EQUAL the cost of tying it
FRACTIONAL = [([0, 8, 8, 0, 8, 8], [k, k, 0, k, k, 0], 8) for k in (1, 2, 4, 6, 16)] + \
             [([0, 8, 8, 0, 0, 0], [k, k, 0, 0, 0, 0], 8) for k in (2, 4)] + \
             [([0, 8, k, 0, 8, 0], [k, k, 0, k, k, 0], 8) for k in (2, 4)]


def split_votes(rng, n=None, m=None, ties=False):
    """4 to 12 rankings over 3-4 elements with evenly or 3-to-1 split votes (a ranking and its reverse, duplicates), in
    a random order: pairs whose two orders, or whose majority order and tie, cost exactly the same"""
    n = n or rng.randint(3, 4)
    m = m or rng.choice((4, 5, 6, 6, 7, 7, 9, 10, 11, 12))
    elems = list(range(1, n + 1))

    def one():
        p = elems[:]
        rng.shuffle(p)
        if not ties:
            return [[e] for e in p]
        r, cur = [], []
        for e in p:
            cur.append(e)
            if rng.random() < .6:
                r.append(sorted(cur))
                cur = []
        if cur:
            r.append(sorted(cur))
        return r
    D = []
    while len(D) < m:
        r = one()
        u = rng.random()
        D.append(r)
        if u < .4 and len(D) < m:
            D.append(list(reversed(r)))
        elif u < .7:
            while len(D) < m and rng.random() < .6:
                D.append([list(b) for b in r])
    rng.shuffle(D)
    return D[:m]



def late_cycle(rng):
    """6 to 8 elements that every ranking places first, in the same order, then a Condorcet cycle of 3-4 elements: the
    non-trivial component holds the internal ids 6..11 (ids on both sides of 8, the size of the smallest set table)"""
    lead = list(range(1, rng.randint(6, 8) + 1))
    k = rng.randint(3, 4)
    cyc = list(range(len(lead) + 1, len(lead) + k + 1))
    rng.shuffle(cyc)
    D = []
    for j in range(k):
        rot = cyc[j:] + cyc[:j]
        D.append([[e] for e in lead] + [[e] for e in rot])
    if rng.random() < .3:
        D.append(D[0])
    return D
