"""C04 -- the Kemeny score a consensus reports is the true score of each returned ranking."""
from .. import grids, algorun
from ..framework import Model
from . import algo_common as ac

PID = "C04"
RULE = ("case = one algorithm run; the reported score (consensus.kemeny_score, and the raw feature when the algorithm "
        "supplied one) is compared by TLC with the definition's score of EVERY returned ranking; non-trivial = a "
        "consensus was returned, the universe has >= 2 elements and the true score is > 0")
EXHAUSTIVE = {"quick": "all 700 datasets of <=2 partial rankings over {1,2,3} x 25 configurations x both flags "
                       "(solver configurations on a sub-grid), rotating schemes",
              "thorough": "quick + all 22648 datasets over 4 elements for the non-solver configurations"}
ASSUMPTIONS = ["dyadic penalties (exact float sums) except the non-dyadic stage where the 1e-6 tolerance of the "
               "property is applied by the harness when converting to integer units",
               "CPLEX paths on the stand-in; CBC trusted"]
COSTLY = {"ExactPulp": 2, "Exact(opt)": 3, "Exact(noopt)": 3, "ExactCplex(opt)": 3, "ExactCplex(noopt)": 3,
          "ExactOptim1": 3, "ParCons": 2, "ParCons(b80,rec)": 3}
SCHEMES = [ac.P_UNI5, ac.P_IND1, ac.P_PSE5, ac.P_UNI1, ac.P_EXT, ac.P_IND5]
# thirds: sums are not exact in binary floating point -> exercises the tolerance clause
NONDYADIC = [([0, 3, 1, 0, 3, 1], [1, 1, 0, 1, 1, 0], 3), ([0, 3, 2, 0, 0, 0], [2, 2, 0, 0, 0, 0], 3),
             ([0, 7, 3, 1, 2, 5], [4, 4, 0, 6, 6, 1], 7)]


def _nt(rec):
    return rec["out"] == "consensus" and ac.n_elems(rec) >= 2 and rec["rep"][0] > 0


def handbuilt_cases(dss, rng):
    """Consensus objects built by hand (one candidate ranking over the universe, the dataset and the scheme): the score
    is computed on demand; several objects are built one after the other in the same process"""
    from .C01 import random_order
    out = []
    for k, D in enumerate(dss):
        U = grids.universe(D)
        for j in range(2):
            out.append({"D": D, "naming": ["ints", "letters", "weird"][k % 3], "sch": list(SCHEMES[(k + j) % len(SCHEMES)]),
                        "cfg": "HandBuilt", "flag": 1, "env": "nocplex", "kseed": k, "entry": k % 4,
                        "cands": [random_order(rng, U)]})
    return out


def models(tier):
    cfgs = ["book_uni5_3_1", "book_odd_3_1"] if tier == "quick" else ["book_uni5_3_1", "book_odd_3_1", "uni5_3_2", "thr_3_2"]
    return [Model("BioScan", f"MC_BioScan_{c}.cfg", "local search bookkeeping: delta_dist accumulated by the transcribed search equals the score difference with the departure ranking after every move (invariant Bookkeeping), from every departure ranking of every one-ranking dataset over 3 elements") for c in cfgs]


def stages(tier, rng, only=None):
    out = [ac.stage("grid3x2", PID, lambda: ac.cases(grids.datasets(3, 2), algorun.ALL_CONFIGS, SCHEMES,
                                                     namings=["ints", "letters", "weird"], every=COSTLY), _nt)]
    n_rand = 300 if tier == "quick" else 3000
    out.append(ac.stage("random", PID, lambda: ac.cases([ac.random_dataset(rng, 7, 5) for _ in range(n_rand)],
                                                        algorun.ALL_CONFIGS, SCHEMES + ac.grid_sample(rng, 6),
                                                        namings=["ints", "letters"],
                                                        every={k: 4 * v for k, v in COSTLY.items()}), _nt))
    out.append(ac.stage("nondyadic", PID, lambda: ac.cases([ac.random_dataset(rng, 6, 5) for _ in range(n_rand)],
                                                           algorun.ALL_CONFIGS, NONDYADIC, namings=["ints"],
                                                           every={k: 4 * v for k, v in COSTLY.items()}), _nt))
    g = grids.datasets(3, 2)
    out.append(ac.stage("reuse_after_mutation", PID, lambda: ac.reuse_mutate_cases(
        g[::3] + [ac.random_dataset(rng, 6, 5, nmin=2) for _ in range(n_rand // 2)],
        algorun.ALL_CONFIGS, SCHEMES, rng, flags=(1, 0), every=COSTLY), _nt))
    out.append(ac.stage("reuse_other_dataset", PID, lambda: ac.reuse_other_cases(
        g[::5] + [ac.random_dataset(rng, 6, 5, nmin=2) for _ in range(n_rand // 2)],
        algorun.ALL_CONFIGS, SCHEMES + NONDYADIC[:1], rng, flags=(1, 0), every=COSTLY), _nt))
    out.append(ac.stage("reuse_other_scheme", PID, lambda: ac.reuse_scheme_cases(
        g[::4] + [ac.random_dataset(rng, 6, 5, nmin=2) for _ in range(n_rand // 2)],
        algorun.ALL_CONFIGS, SCHEMES, rng, flags=(1, 0), every=COSTLY), _nt))
    out.append(ac.stage("mixed_magnitudes", PID, lambda: ac.cases(
        [ac.random_dataset(rng, 6, 6, nmin=3) for _ in range(n_rand // 2)]
        + [ac.cyclic_dataset(rng, 3, 6, incomplete=k % 2 == 1) for k in range(n_rand // 2)], algorun.ALL_CONFIGS,
        ac.MIXEDMAG, flags=(0, 1), every={k: 4 * v for k, v in COSTLY.items()}), _nt))
    out.append(ac.stage("lookalike_rankings", PID, lambda: ac.cases(
        ac.lookalike_datasets(rng, 150 if tier == "quick" else 1500), nosolver + ["ExactPulp"], SCHEMES, flags=(0, 1),
        namings=["weird"], every={"ExactPulp": 3}), _nt))
    out.append(ac.stage("majority_lookalikes", PID, lambda: ac.cases(
        ac.majority_datasets(), ["PickAPerm", "Bio[PickAPerm]", "Bio[PickAPerm,Copeland]", "BioConsert", "Borda"],
        [ac.P_UNI1, ac.P_UNI5, ac.P_PSE1], flags=(0, 1), namings=["weird", "weird", "letters"], all_schemes=True), _nt))
    out.append(ac.stage("handbuilt_consensus", PID, lambda: handbuilt_cases(
        grids.datasets(3, 2)[::2] + [ac.random_dataset(rng, 6, 5, nmin=2) for _ in range(n_rand)], rng), _nt))
    out.append(ac.stage("tiny_penalties", PID, lambda: ac.cases(
        [ac.random_dataset(rng, 6, 6, nmin=3) for _ in range(n_rand)] + g[::7], algorun.ALL_CONFIGS, ac.TINY,
        flags=(0, 1), every={k: 4 * v for k, v in COSTLY.items()}), _nt))
    cheap_cfgs = [c for c in algorun.ALL_CONFIGS if c not in COSTLY]
    out.append(ac.stage("huge_penalties", PID, lambda: ac.huge_cases(
        [ac.random_dataset(rng, 6, 6, nmin=3) for _ in range(n_rand // 3)]
        + [ac.cyclic_dataset(rng, 3, 6, incomplete=k % 2 == 1) for k in range(n_rand // 3)], cheap_cfgs), _nt))
    nosolver = [c for c in algorun.ALL_CONFIGS if c not in COSTLY and not c.startswith("ParCons")]
    out.append(ac.stage("larger", PID, lambda: ac.cases([ac.larger_dataset(rng) for _ in range(n_rand // 5)], nosolver,
                                                        SCHEMES + ac.MIXEDMAG[:2], flags=(1, 0)), _nt))
    out.append(ac.stage("eleven_plus", PID, lambda: ac.cases(
        [ac.eleven_plus_dataset(rng) for _ in range(6 if tier == "quick" else 40)],
        ["ExactPulp", "Exact(opt)", "ParCons", "BioConsert", "Copeland", "ExactOptim1"], SCHEMES, flags=(1,)), _nt))
    out.append(ac.stage("cycles", PID, lambda: ac.cases(
        [ac.cyclic_dataset(rng, 3, 5, incomplete=k % 2 == 1) for k in range(n_rand // 3)],
        algorun.ALL_CONFIGS, SCHEMES, every={k: 2 * v for k, v in COSTLY.items()}), _nt))
    from .C08 import twin_stage, _search_cases
    out.append(twin_stage("local_search_bookkeeping", lambda: _search_cases(
        grids.datasets(3, 2)[::2] + [ac.random_dataset(rng, 6, 5, nmin=3) for _ in range(n_rand)], SCHEMES), PID))
    if tier == "thorough":
        cheap = [c for c in algorun.ALL_CONFIGS if c not in COSTLY]
        out.append(ac.stage("grid4x2", PID, lambda: ac.cases(grids.datasets(4, 2), cheap, SCHEMES, flags=(0,),
                                                             namings=["ints"]), _nt))
    out.append(ac.wide_stage("wide_1000", PID, lambda: ac.wide_cases(rng, 2 if tier == "quick" else 20,
                                                                      ["BioConsert", "Borda", "Copeland"], complete_only=True)))
    out.append(ac.wide_stage("permutations_17_plus", PID, lambda: ac.permutation_cases(
        rng, 21 if tier == "quick" else 210, ["PickAPerm", "BioConsert", "Borda", "Copeland"]), chunk=40))
    return [s for s in out if not only or s.name == only]
