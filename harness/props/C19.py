"""C19 -- scoring schemes: validation, scaling and equivalence behave as documented."""
import itertools

from .. import core, grids
from ..framework import Model, Stage
from . import algo_common as ac

PID = "C19"
RULE = ("validation: every 12-tuple over {0,1,2} (531441 constructor calls, 243 per record) + malformed shapes/types as "
        "tagged trees; scaling: valid schemes x positive dyadic factors incl. the library's own scores under s and k*s; "
        "equivalence: all ordered pairs of a scheme sample closed under scaling and single-vector perturbations; "
        "non-trivial = every record (each packs many distinct inputs)")
EXHAUSTIVE = {"quick": "all 3^12 = 531441 twelve-tuples over {0,1,2}; all pairs of a 120-scheme closed sample",
              "thorough": "same grid; 1500 malformed inputs; 2916 grid schemes x 6 factors; all pairs of a 300-scheme sample"}
ASSUMPTIONS = ["factors are dyadic rationals so that k*s is exact in floating point",
               "NaN / inf / bool penalties and non-positive or non-numeric factors are informational (not in the "
               "property's domain)"]
EXC = ("InvalidScoringScheme", "NonRealPositiveValuesScoringScheme", "ForbiddenAssociationPenaltiesScoringScheme")
_impl = {}


def _init(aux):
    core.import_impl()
    from corankco.scoringscheme import ScoringScheme
    from corankco.dataset import Dataset
    from corankco.ranking import Ranking
    from corankco.kemeny_score_computation import KemenyComputingFactory
    _impl.update(SS=ScoringScheme, Dataset=Dataset, Ranking=Ranking, K=KemenyComputingFactory)


def _construct(obj):
    try:
        _impl["SS"](obj)
        return "ok"
    except Exception as ex:
        return type(ex).__name__


# ----------------------------------------------------------------------------- grid
def run_grid(case):
    rec = dict(case)
    outs = []
    for suf in itertools.product((0, 1, 2), repeat=5):
        v = list(case["prefix"]) + list(suf)
        outs.append(_construct([[float(x) for x in v[:6]], [float(x) for x in v[6:]]]))
    rec["outs"] = outs
    return rec


# ----------------------------------------------------------------------------- raw
def _atom(a):
    t, v, f = a["t"], a["v"], a.get("f", 0)
    if t == "num" and a.get("eps"):
        import math
        x = float(v)
        for _ in range(a["eps"]):
            x = math.nextafter(x, math.inf)
        return x
    if t == "num":
        if f == 2:
            import numpy
            return numpy.float64(v)           # a float subclass: a number like any other
        return float(v) if f else int(v)
    if t == "neg":
        return -float(v) if f else -int(v)
    if t == "str":
        return "1"
    if t == "none":
        return None
    return {0: float("nan"), 1: float("inf"), 2: True}[v % 3]       # "odd"


def _row(r):
    if r["kind"] == "list":
        return [_atom(a) for a in r["atoms"]]
    if r["kind"] == "tuple":
        return tuple(_atom(a) for a in r["atoms"])
    return {"none": None, "int": 3, "str": "abcdef", "dict": {}}[r.get("ov", "none")]


def build_raw(raw):
    if raw["outer"] == "list":
        return [_row(r) for r in raw["rows"]]
    if raw["outer"] == "tuple":
        return tuple(_row(r) for r in raw["rows"])
    return {"none": None, "int": 7, "str": "ab", "dict": {}}[raw.get("ov", "none")]


def run_raw(case):
    rec = dict(case)
    rec["out"] = _construct(build_raw(case["raw"]))
    return rec


def raw_cases(rng, n):
    good = [[0, 1, 1, 0, 1, 1], [1, 1, 0, 1, 1, 0]]

    def atoms(vals, bad=None):
        out = [{"t": "num", "v": v, "f": rng.randint(0, 2), "eps": 0} for v in vals]
        if bad:
            j, t = bad
            out[j] = {"t": t, "v": rng.randint(0, 2), "f": rng.randint(0, 1), "eps": 0}
            if t == "neg":
                out[j]["v"] = rng.randint(1, 3)
        return out
    cases = []
    shapes = []
    # shapes
    for outer in ("list", "tuple", "other"):
        for nrows in (0, 1, 2, 3):
            for kinds in itertools.product(("list", "tuple", "other"), repeat=nrows):
                for lens in itertools.product((5, 6, 7), repeat=nrows):
                    rows = []
                    for k, ln in zip(kinds, lens):
                        vals = (good[len(rows) % 2] + [0])[:ln] if ln <= 7 else good[0]
                        rows.append({"kind": k, "atoms": atoms(vals) if k != "other" else [],
                                     "ov": rng.choice(["none", "int", "str", "dict"])})
                    shapes.append({"op": "raw", "raw": {"outer": outer, "rows": rows if outer != "other" else [],
                                                        "ov": rng.choice(["none", "int", "str", "dict"])}})
    rng.shuffle(shapes)
    cases += shapes[:n // 2]
    # one bad atom in an otherwise good / association-breaking scheme
    for row in (0, 1):
        for j in range(6):
            for t in ("neg", "str", "none", "odd"):
                for base in (good, [[0, 1, 1, 2, 1, 1], [1, 1, 0, 1, 1, 0]], [[0, 1, 1, 0, 1, 1], [1, 2, 0, 1, 1, 0]]):
                    rows = [{"kind": "list", "atoms": atoms(base[0], (j, t) if row == 0 else None)},
                            {"kind": "list", "atoms": atoms(base[1], (j, t) if row == 1 else None)}]
                    cases.append({"op": "raw", "raw": {"outer": "list", "rows": rows}})
    # values that differ by a few units in the last place (1.0 vs 1.0000000000000002): distinct numbers
    for j, other in ((0, 1), (1, 0), (3, 4), (4, 3)):
        for eps in (1, 2):
            T = [{"t": "num", "v": v, "f": 1, "eps": 0} for v in [1, 1, 0, 1, 1, 0]]
            T[j]["eps"] = eps
            cases.append({"op": "raw", "raw": {"outer": "list", "rows": [{"kind": "list", "atoms": atoms([0, 1, 1, 0, 1, 1])},
                                                                         {"kind": "list", "atoms": T}]}})
    for eps in (1, 2):
        B = [{"t": "num", "v": v, "f": 1, "eps": 0} for v in [0, 1, 1, 1, 1, 0]]
        B[3]["eps"] = eps                      # B[3] > B[4] by a few ulps: forbidden
        cases.append({"op": "raw", "raw": {"outer": "list", "rows": [{"kind": "list", "atoms": B},
                                                                     {"kind": "list", "atoms": atoms([1, 1, 0, 1, 1, 0])}]}})
    # random association patterns with values 0..3
    while len(cases) < n:
        B = [rng.randint(0, 3) for _ in range(6)]
        T = [rng.randint(0, 3) for _ in range(6)]
        if rng.random() < .5:
            B[0] = 0
            T[2] = 0
            T[1] = T[0]
            T[4] = T[3]
        cases.append({"op": "raw", "raw": {"outer": "list", "rows": [{"kind": "list", "atoms": atoms(B)},
                                                                     {"kind": "list", "atoms": atoms(T)}]}})
    return cases


# ----------------------------------------------------------------------------- scaling
def run_mul(case):
    rec = dict(case)
    B, T, unit = case["sch"]
    num, den = case["num"], case["den"]
    U = unit * den
    rec.update(out="", exact=0, mulB=[], mulT=[], rmulB=[], rmulT=[], afterB=[], afterT=[], fresh=0, scores=[],
               imulB=[], imulT=[], nick="")
    try:
        s = _impl["SS"](core.scheme_float(B, T, unit))
        k = num if den == 1 and num % 2 == 1 else num / den        # odd integer factors as int, the others as float
        # the factor as numpy delivers it (a subclass of float), or as a bool (a subclass of int) for the factor 1
        if case.get("ff") == 1:
            import numpy as np
            k = np.float64(num / den)
        elif case.get("ff") == 2 and num == den:
            k = True
        nick_before = s.get_nickname()          # history: the nickname of the original has been asked
        a = s * k
        b = k * s
        t = s
        t *= k                                  # augmented assignment: must not rescale s itself
        exact = True

        def vec(v):
            nonlocal exact
            out = []
            for x in v:
                u, ex = core.to_units(x, U)
                exact = exact and ex
                out.append(u)
            return out
        rec["mulB"], rec["mulT"] = vec(a.b_vector), vec(a.t_vector)
        rec["rmulB"], rec["rmulT"] = vec(b.b_vector), vec(b.t_vector)
        fresh = (a is not s and b is not s and a.penalty_vectors is not s.penalty_vectors
                 and a.penalty_vectors[0] is not s.penalty_vectors[0] and a.penalty_vectors[1] is not s.penalty_vectors[1])
        am = core.Absmap("ints")
        sc = []
        for D, c in case["pairs"]:
            ds = _impl["Dataset"].from_raw_list(am.raw_dataset(D))
            cand = _impl["Ranking"](am.norm_ranking(c))
            v1, e1 = core.to_units(_impl["K"](s).get_kemeny_score(cand, ds), U)
            v2, e2 = core.to_units(_impl["K"](a).get_kemeny_score(cand, ds), U)
            exact = exact and e1 and e2
            sc.append([v1, v2])
        rec["scores"] = sc
        rec["afterB"], rec["afterT"] = vec(s.b_vector), vec(s.t_vector)
        rec["fresh"] = 1 if (fresh and t is not s) else 0
        rec["imulB"], rec["imulT"] = vec(t.b_vector), vec(t.t_vector)
        nk = a.get_nickname()
        # the nickname follows from the penalties: a FRESH scheme with the same penalties must get the same one
        nk_fresh = _impl["SS"]([list(a.b_vector), list(a.t_vector)]).get_nickname()
        rec["nick"] = nk if nk in ("UKSP", "GPDP", "IGKS", "EKS") else ("other" if nk == nk_fresh else "stale")
        rec["exact"] = 1 if exact else 0
        rec["out"] = "ok"
    except Exception as ex:
        rec["out"] = "error:" + type(ex).__name__
    return rec


def mul_cases(rng, schemes, n_pairs=3):
    from .C01 import random_order
    out = []
    for k, (B, T, unit) in enumerate(schemes):
        for num, den in ((1, 2), (1, 1), (2, 1), (3, 1), (1, 4), (3, 2)):
            pairs = []
            for _ in range(n_pairs):
                D = ac.random_dataset(rng, 5, 4)
                pairs.append([D, random_order(rng, grids.universe(D))])
            out.append({"op": "mul", "sch": [B, T, unit], "num": num, "den": den, "pairs": pairs, "ff": len(out) % 3})
    return out


# ----------------------------------------------------------------------------- equivalence
def run_equiv(case):
    rec = dict(case)
    rec.update(out="", eq6=[], eq3=[], nick="")
    try:
        B, T, unit = case["s1"]
        # uexp: both sides are scaled by 2^-uexp (exact); TLC only sees the integer penalties
        scale = 2.0 ** case.get("uexp", 0)
        s1 = _impl["SS"](core.scheme_float(B, T, unit * scale))
        for B2, T2, u2 in case["others"]:
            s2 = _impl["SS"](core.scheme_float(B2, T2, u2 * scale))
            r6, r3 = s1.is_equivalent_to(s2), s1.is_equivalent_to_on_complete_rankings_only(s2)
            if r6 not in (True, False) or r3 not in (True, False):
                raise TypeError("not bool")
            rec["eq6"].append(1 if r6 else 0)
            rec["eq3"].append(1 if r3 else 0)
        nick = s1.get_nickname()
        rec["nick"] = nick if nick in ("UKSP", "GPDP", "IGKS", "EKS") else "other"
        rec["out"] = "ok"
    except Exception as ex:
        rec["out"] = "error:" + type(ex).__name__
    return rec


def closed_sample(rng, n):
    base = list(ac.PRESET) + ac.grid_sample(rng, n // 6)
    out = []
    for (B, T, u) in base:
        out.append((B, T, u))
        out.append(([3 * b for b in B], [3 * t for t in T], u))              # multiple
        out.append((B, T, 2 * u))                                            # half
        out.append((B, [2 * t for t in T], u))                               # differs only in T (scaled T)
        T2 = list(T)
        T2[5] = T2[5] + 1
        out.append((B, T2, u))                                               # differs only in entry 6 of T
        B2 = list(B)
        B2[5] = B2[5] + 1
        out.append((B2, T, u))                                               # differs only in entries 4-6 of B
        B3 = list(B)
        B3[2] = B3[2] + 1
        out.append((B3, T, u))                                               # differs in the first three entries
    out = [s for s in out if core.valid_scheme(s[0], s[1])]
    rng.shuffle(out)
    return [list(s) for s in out[:n]]


def equiv_cases(rng, n):
    S = closed_sample(rng, n)
    return [{"op": "equiv", "s1": s, "others": S} for s in S]


def extreme_cases(rng, n):
    """both schemes of every pair around 2^600 or around 2^-600 (products of two penalties leave the range of doubles,
    quotients do not)"""
    out = []
    for uexp in (600, -600, 520, -530):
        S = closed_sample(rng, n)
        out += [{"op": "equiv", "s1": s, "others": S, "uexp": uexp} for s in S]
    return out


def multiples_cases(rng):
    """integer multiples by 3, 7, 49, 98, 147 of dyadic schemes (1/49*49 is not 1 in floating point, the quotients of
    exact multiples are the same double), next to near-multiples"""
    out = []
    for (B, T, u) in list(ac.PRESET) + ac.grid_sample(rng, 10):
        fam = [[[k * b for b in B], [k * t for t in T], u] for k in (1, 3, 7, 49, 98, 147)]
        T2 = list(T)
        T2[5] += 1
        fam.append([[49 * b for b in B], [49 * t for t in T2], u])
        B2 = [49 * b for b in B]
        B2[2] += 1
        fam.append([B2, [49 * t for t in T], u])
        fam = [s for s in fam if core.valid_scheme(s[0], s[1])]
        out += [{"op": "equiv", "s1": s, "others": fam} for s in fam]
    return out


def _nt(rec):
    return True


def models(tier):
    # 2.6 million pairs: three minutes; thorough tier only
    if tier != "thorough":
        return []
    return [Model("SchemeEquiv", "SchemeEquiv.cfg", "the equivalence loop of the library transcribed with exact fractions "
                  "(first non-null quotient kept, mismatch or one-sided null entry refused) answers Scheme!Proportional on "
                  "every pair of a family of 1610 valid schemes, for both variants (3 and 6 entries)", timeout=3000)]


def stages(tier, rng, only=None):
    out = [Stage("grid", "Trace_Scheme", run_grid,
                 lambda: [{"op": "grid", "prefix": list(p)} for p in itertools.product((0, 1, 2), repeat=7)],
                 _nt, _init),
           Stage("raw", "Trace_Scheme", run_raw, lambda: raw_cases(rng, 600 if tier == "quick" else 1500), _nt, _init)]
    g = core.grid_schemes()
    sch = [(B, T, 4) for B, T in (rng.sample(g, 150) if tier == "quick" else g)] + list(ac.PRESET)
    # penalties around 1e-9 (unit 2^30): products with a factor < 1 go below 1e-10
    sch += [(B, T, 2 ** 30) for B, T in rng.sample(g, 30)]
    out.append(Stage("mul", "Trace_Scheme", run_mul, lambda: mul_cases(rng, sch, 2 if tier == "quick" else 1), _nt,
                     _init))
    out.append(Stage("equiv", "Trace_Scheme", run_equiv, lambda: equiv_cases(rng, 120 if tier == "quick" else 300),
                     _nt, _init))
    out.append(Stage("equiv_odd_multiples", "Trace_Scheme", run_equiv, lambda: multiples_cases(rng), _nt, _init))
    out.append(Stage("equiv_extreme_magnitudes", "Trace_Scheme", run_equiv,
                     lambda: extreme_cases(rng, 40 if tier == "quick" else 120), _nt, _init))
    return [s for s in out if not only or s.name == only]
