"""C03 -- every algorithm returns a well-formed consensus over exactly the universe."""
from .. import grids, algorun
from ..framework import Model
from . import algo_common as ac
from . import extras_common

PID = "C03"
RULE = ("case = one run of one algorithm configuration (25 configurations incl. starters, auxiliaries, solver back-ends, "
        "stand-in CPLEX) on (dataset, scheme, flag, naming); non-trivial = the algorithm returned a consensus and the "
        "universe has >= 2 elements; distinct by the whole case")
EXHAUSTIVE = {"quick": "all 700 datasets of <=2 partial rankings over {1,2,3} x every configuration (costly solver "
                       "configurations on every 3rd dataset), schemes/namings rotating; all KwikSort pivot schedules "
                       "are enumerated by C11",
              "thorough": "quick + all 22648 datasets of <=2 rankings over 4 elements for the cheap configurations"}
ASSUMPTIONS = ["CPLEX paths run on the stand-in (harness/standin_cplex.py)", "CBC trusted as MILP solver",
               "a run that raises is 'not accepted' here; crashes are decided by C14 and C05"]

COSTLY = {"ExactPulp": 3, "Exact(opt)": 3, "Exact(noopt)": 3, "ExactCplex(opt)": 2, "ExactCplex(noopt)": 2,
          "ExactOptim1": 2, "ParCons": 2, "ParCons(b80,rec)": 3}
SCHEMES = [ac.P_UNI5, ac.P_IND1, ac.P_PSE5, ac.P_UNI1, ac.P_EXT]


def _nt(rec):
    return rec["out"] == "consensus" and ac.n_elems(rec) >= 2


def models(tier):
    return extras_common.bench_models(tier)


def stages(tier, rng, only=None):
    out = []
    out.append(ac.stage("grid3x2", PID, lambda: ac.cases(grids.datasets(3, 2), algorun.ALL_CONFIGS, SCHEMES,
                                                         namings=ac.NAMINGS3, every=COSTLY), _nt))
    n_rand = 400 if tier == "quick" else 3000
    out.append(ac.stage("random", PID, lambda: ac.cases([ac.random_dataset(rng, 7, 5) for _ in range(n_rand)],
                                                        algorun.ALL_CONFIGS, SCHEMES + ac.grid_sample(rng, 5),
                                                        namings=["ints", "letters", "digits", "mixed2"],
                                                        every={k: 4 * v for k, v in COSTLY.items()}), _nt))
    g = grids.datasets(3, 2)
    out.append(ac.stage("reuse_after_mutation", PID, lambda: ac.reuse_mutate_cases(
        g[::3] + [ac.random_dataset(rng, 6, 5, nmin=2) for _ in range(150 if tier == "quick" else 1500)],
        algorun.ALL_CONFIGS, SCHEMES, rng, flags=(1, 0), every=COSTLY), _nt))
    out.append(ac.stage("reuse_other_dataset", PID, lambda: ac.reuse_other_cases(
        g[::5] + [ac.random_dataset(rng, 6, 5, nmin=2) for _ in range(100 if tier == "quick" else 1000)],
        algorun.ALL_CONFIGS, SCHEMES, rng, flags=(1, 0), every=COSTLY), _nt))
    out.append(ac.stage("cycles", PID, lambda: ac.cases(
        [ac.cyclic_dataset(rng, 3, 5, incomplete=k % 2 == 1) for k in range(120 if tier == "quick" else 1200)]
        + [ac.two_cycles(rng) for _ in range(8 if tier == "quick" else 60)]
        + [ac.cycle_plus(rng) for _ in range(60 if tier == "quick" else 600)],
        algorun.ALL_CONFIGS, SCHEMES, namings=ac.NAMINGS3, every={k: 2 * v for k, v in COSTLY.items()}), _nt))
    ext = g[::6] + [ac.random_dataset(rng, 6, 5, nmin=2) for _ in range(100 if tier == "quick" else 1000)]
    out.append(ac.stage("gigantic_penalties", PID, lambda: ac.scaled_cases(ext, algorun.ALL_CONFIGS, SCHEMES, -70,
                                                                           flags=(1, 0), every=COSTLY), _nt))
    out.append(ac.stage("microscopic_penalties", PID, lambda: ac.scaled_cases(ext, algorun.ALL_CONFIGS, SCHEMES, 40,
                                                                              flags=(1, 0), every=COSTLY), _nt))
    nosolver = [c for c in algorun.ALL_CONFIGS if c not in COSTLY and not c.startswith("ParCons")]
    out.append(ac.stage("larger", PID, lambda: ac.cases([ac.larger_dataset(rng) for _ in range(60 if tier == "quick" else 600)],
                                                        nosolver, SCHEMES, flags=(1, 0), namings=ac.NAMINGS3), _nt))
    multi = ["ExactCplex(noopt)", "BioConsert", "PickAPerm", "Bio[Copeland,KwikSort]", "Bio[Borda,BordaBid]", "BioCo"]
    out.append(ac.stage("flag_history", PID, lambda: ac.simple_reuse_cases(
        ac.symmetric_datasets(), multi, SCHEMES, {"kind": "flagflip"})
        + ac.simple_reuse_cases(ac.symmetric_datasets(), ["Exact(noopt)"], SCHEMES, {"kind": "flagflip"}, env="standin"),
        _nt))

    def sparse_first():
        dss = []
        for _ in range(60 if tier == "quick" else 600):
            D = ac.cycle_plus_sparse(rng)
            if rng.random() < .7:
                D = [D[-1]] + D[:-1]                 # a ranking that misses the whole component comes first
            if rng.random() < .3:
                D = [[]] + D
            dss.append(D)
        return ac.cases(dss, ["ExactCplex(opt)", "ExactOptim1", "ParCons", "ParCons(b0,BioConsert)", "ParCons(b2,Borda)",
                              "Exact(opt)"], SCHEMES, namings=ac.NAMINGS3) \
            + ac.cases(dss, ["Exact(opt)", "ParCons", "ParCons(b3,BioConsert)"], SCHEMES, namings=ac.NAMINGS3, env="standin")
    out.append(ac.stage("sparse_cycles", PID, sparse_first, _nt))
    out.append(ac.stage("ids_from_tied_buckets", PID, lambda: ac.cases(
        [ac.tied_first(rng) for _ in range(60 if tier == "quick" else 600)],
        ["ExactCplex(opt)", "ParCons", "ParCons(b0,BioConsert)", "BioConsert", "KwikSort", "Copeland"], SCHEMES,
        namings=["scatter", "collide", "letters"]), _nt))
    out.append(ac.stage("lookalike_rankings", PID, lambda: ac.cases(
        ac.lookalike_datasets(rng, 100 if tier == "quick" else 1000), nosolver, SCHEMES, flags=(0, 1), namings=["weird"]),
        _nt))
    out.append(ac.stage("very_many_rankings", PID, lambda: ac.cases(
        [ac.many_rankings_dataset(rng) for _ in range(8 if tier == "quick" else 60)], nosolver, SCHEMES, flags=(1,)), _nt))
    from .C11 import stages as kwik_stages
    for st in kwik_stages(tier, rng, prop=PID):
        if st.name in ("grid3x2", "grid4x2sample", "grid4x2", "random5"):
            st.name = "kwiksort_all_schedules_" + st.name
            out.append(st)
    if tier == "thorough":
        cheap = [c for c in algorun.ALL_CONFIGS if c not in COSTLY]
        out.append(ac.stage("grid4x2", PID, lambda: ac.cases(grids.datasets(4, 2), cheap, SCHEMES, flags=(0,),
                                                             namings=ac.NAMINGS3), _nt))
        out.append(ac.stage("grid4x2solvers", PID, lambda: ac.cases(grids.datasets(4, 2), list(COSTLY), SCHEMES,
                                                                    flags=(1,), namings=ac.NAMINGS3,
                                                                    every={k: 25 for k in COSTLY}), _nt))
    out += extras_common.c03_stages(tier, rng)      # specified behaviour outside the listed properties (drift only)
    return [s for s in out if not only or s.name == only]
