"""C05 -- the exact algorithm returns a global optimum, with or without CPLEX."""
from .. import grids, ilprun
from ..framework import Model, Stage
from . import algo_common as ac

PID = "C05"
RULE = ("case = one run of an exact configuration (selector with/without optimisation in an environment without CPLEX "
        "and with the CPLEX API present, free-solver model, CPLEX model with/without optimisations, paper variant) ; "
        "TLC compares the score of every returned ranking with the optimum over ALL bucket orders (brute force n<=5, "
        "subset DP above) and, for the non-optimised CPLEX model asked for all optima, the returned set with the set of "
        "minimisers; non-trivial = >= 3 elements and the all-tied ranking is not optimal")
EXHAUSTIVE = {"quick": "ILP feasible set = bucket orders for n<=4 (model), all 700 datasets of <=2 rankings over 3 "
                       "elements x 8 exact configurations",
              "thorough": "ILP n<=5, all datasets over 3 elements with <=3 rankings (sub-sampled per configuration), "
                          "a 1/10 sample of the 22648 4-element datasets, random datasets up to 7 elements"}
ASSUMPTIONS = ["CBC (via PuLP) trusted as a MILP solver -- a wrong answer shows up as a violation, it is not masked",
               "CBC works with tolerances: the lexicographic (two-magnitude, relative differences of 6e-11) schemes are "
               "only run on the CPLEX code paths (stand-in, exact enumeration), not on the free-solver path",
               "real CPLEX is absent: its API is played by harness/standin_cplex.py (enumeration over bucket-order "
               "encodings checked against every recorded row)",
               "optimum: brute force over all bucket orders (n<=5) / subset DP (model-checked equal on the grid)"]
EXACT = ["ExactPulp", "Exact(opt)", "Exact(noopt)", "ExactCplex(opt)", "ExactCplex(noopt)", "ExactOptim1"]
SCHEMES = [ac.P_UNI5, ac.P_IND1, ac.P_PSE5, ac.P_UNI1, ac.P_EXT, ac.P_IND5, ac.P_PSE1]


def _nt(rec):
    return rec["out"] == "consensus" and ac.n_elems(rec) >= 3 and len(rec["K"][0]) > 1


def _cases(dss, rng, stride=1, schemes=None):
    schemes = schemes or SCHEMES
    cs = ac.cases(dss, EXACT, schemes, every={c: stride for c in EXACT}, namings=["ints", "letters", "collide", "big"])
    # the user-facing selector additionally in an environment where the CPLEX API is present
    cs += ac.cases(dss, ["Exact(opt)", "Exact(noopt)"], schemes, env="standin",
                   every={"Exact(opt)": stride, "Exact(noopt)": stride})
    # ... and where a cplex package is present but cannot be imported
    cs += ac.cases(dss, ["Exact(opt)", "Exact(noopt)"], schemes, env="brokencplex", flags=(1,),
                   every={"Exact(opt)": stride * 4, "Exact(noopt)": stride * 4})
    return cs


def models(tier):
    return [Model("MC_ILP", "MC_ILP_4.cfg" if tier == "quick" else "MC_ILP_5.cfg",
                  "ILP model: the 0/1 solutions of the binary + transitivity rows are exactly the encodings of bucket "
                  "orders, the objective equals the score read off the cost table, defeat counting decodes")]


def _ilp_cases(tier, rng):
    """models captured on datasets with 2..4 (thorough: 5) elements: structural rows are dataset-independent, the
    pruning rows depend on the cost table"""
    out = []
    sizes = (2, 3, 4) if tier == "quick" else (2, 3, 4, 5)
    for n in sizes:
        k = 0
        while k < (6 if n <= 4 else 2):
            D = ac.random_dataset(rng, n, 4, nmin=n)
            if len(grids.universe(D)) != n:
                continue
            k += 1
            s = [ac.P_UNI5, ac.P_IND1, ac.P_PSE5, ac.P_UNI1, ac.P_EXT][k % 5]
            for src in (("pulp", "cplex_noopt") if k <= 1 else ()) + ("pulp_pruned", "cplex_opt", "optim1"):
                out.append({"D": D, "sch": list(s), "naming": "ints", "src": src})
    cyc_sch = [ac.P_PSE5, ac.P_UNI5, ([0, 10, 5, 0, 10, 5], [4, 4, 0, 4, 4, 0], 10), ([0, 4, 2, 0, 0, 0], [1, 1, 0, 0, 0, 0], 4)]
    for k in range(12 if tier == "quick" else 60):
        D = ac.cyclic_dataset(rng, 3, 4 if tier == "quick" else 5)
        for src in ("pulp_pruned", "cplex_opt", "optim1"):
            out.append({"D": D, "sch": list(cyc_sch[k % len(cyc_sch)]), "naming": "ints", "src": src})
    return out


def stages(tier, rng, only=None):
    out = [ac.stage("grid3x2", PID, lambda: _cases(grids.datasets(3, 2), rng), _nt),
           Stage("ilp_rows", "Trace_ILP", ilprun.run_ilp, lambda: _ilp_cases(tier, rng), lambda r: r["n"] >= 3,
                 ilprun.init, post=ilprun.flatten, chunk=200)]
    ncyc = 120 if tier == "quick" else 1500
    cyc_sch = SCHEMES + [([0, 10, 5, 0, 10, 5], [4, 4, 0, 4, 4, 0], 10), ([0, 4, 2, 0, 0, 0], [1, 1, 0, 0, 0, 0], 4)] \
        + ac.TINY
    out.append(ac.stage("cycles", PID, lambda: _cases(
        [ac.cyclic_dataset(rng, 3, 5, incomplete=k % 3 == 2) for k in range(ncyc)], rng, schemes=cyc_sch), _nt))
    out.append(ac.stage("reuse_after_mutation", PID, lambda: ac.reuse_mutate_cases(
        grids.datasets(3, 2)[::4] + [ac.cyclic_dataset(rng, 3, 5) for _ in range(ncyc // 2)], EXACT, SCHEMES, rng)
        + ac.reuse_mutate_cases([ac.cyclic_dataset(rng, 3, 5) for _ in range(ncyc // 3)],
                                ["Exact(opt)", "Exact(noopt)"], SCHEMES, rng, env="standin"), _nt))
    ext = grids.datasets(3, 2)[::5] + [ac.cyclic_dataset(rng, 3, 5, incomplete=k % 3 == 2)
                                       for k in range(60 if tier == "quick" else 600)]
    out.append(ac.stage("microscopic_penalties", PID, lambda: ac.scaled_cases(ext, EXACT, SCHEMES, 40), _nt))
    out.append(ac.stage("gigantic_penalties", PID, lambda: ac.scaled_cases(ext, EXACT, SCHEMES, -60), _nt))
    out.append(ac.stage("lexicographic_penalties", PID, lambda: ac.lex_cases(
        grids.datasets(3, 2)[::6] + [ac.cyclic_dataset(rng, 3, 5, incomplete=k % 3 == 2) for k in range(40 if tier == "quick" else 400)],
        ["ExactCplex(opt)", "ExactCplex(noopt)", "ExactOptim1"])
        + ac.lex_cases(grids.datasets(3, 2)[::9] + [ac.cyclic_dataset(rng, 3, 5) for _ in range(30 if tier == "quick" else 300)],
                       ["Exact(opt)", "Exact(noopt)"], env="standin"), _nt))
    tenths = [([0, 10, 3, 0, 10, 3], [2, 2, 0, 1, 1, 0], 10), ([0, 3, 1, 0, 2, 1], [2, 2, 0, 3, 3, 0], 10),
              ([0, 7, 2, 1, 3, 1], [3, 3, 0, 1, 1, 2], 10)]
    out.append(ac.stage("all_optimal_with_tenths", PID, lambda: ac.cases(
        grids.datasets(3, 2)[::2] + [ac.cyclic_dataset(rng, 3, 4, incomplete=k % 3 == 2) for k in range(60 if tier == "quick" else 600)],
        ["ExactCplex(noopt)"], tenths + ac.MIXEDMAG[2:] + [([0, 8000000, 1, 0, 8000000, 1], [2, 2, 0, 1, 1, 0], 1),
                                                            ([0, 8000000, 3, 0, 1, 2], [1, 1, 0, 2, 2, 0], 1),
                                                            ([0, 8000000, 1, 0, 8000000, 1],
                                                             [8000000, 8000000, 0, 8000000, 8000000, 2], 1),
                                                            ([0, 8000000, 2, 1, 1, 3],
                                                             [8000000, 8000000, 0, 2, 2, 1], 1)],
        flags=(0,), namings=["ints", "letters", "collide"]), _nt))
    def many_optima():
        # opposite opinions over five elements: more than a hundred optimal consensus rankings (120 for two opposite
        # permutations), all of them requested
        ds = []
        for k in range(6 if tier == "quick" else 30):
            p = rng.sample(range(1, 6), 5)
            D = [[[e] for e in p], [[e] for e in reversed(p)]]
            if k % 3 == 1:
                D = D + D
            if k % 3 == 2:
                D = [[[p[0], p[1]]] + [[e] for e in p[2:]], [[e] for e in reversed(p[2:])] + [[p[0], p[1]]]]
            ds.append(D)
        return ac.cases(ds, ["ExactCplex(noopt)"], [ac.P_UNI1, ac.P_UNI5, ac.P_IND1], flags=(0,), namings=["ints", "letters"])
    out.append(ac.stage("many_optima", PID, many_optima, _nt))
    out.append(ac.stage("ids_from_tied_buckets", PID, lambda: ac.cases(
        [ac.tied_first(rng) for _ in range(80 if tier == "quick" else 800)],
        ["ExactCplex(opt)", "ExactOptim1", "ExactPulp"], SCHEMES, flags=(1,), namings=["scatter", "collide", "letters"])
        + ac.cases([ac.tied_first(rng) for _ in range(40 if tier == "quick" else 400)], ["Exact(opt)"], SCHEMES,
                   flags=(1,), namings=["scatter", "collide"], env="standin"), _nt))
    out.append(ac.stage("late_cycle", PID, lambda: ac.cases(
        [ac.late_cycle(rng) for _ in range(30 if tier == "quick" else 300)],
        ["ExactPulp", "Exact(opt)", "Exact(noopt)", "ParCons"], SCHEMES, flags=(1,), namings=["ints", "letters", "big"])
        + ac.cases([ac.late_cycle(rng) for _ in range(15 if tier == "quick" else 150)], ["ExactCplex(opt)", "Exact(opt)"],
                   SCHEMES, flags=(1,), namings=["ints", "big"], env="standin"), _nt))
    out.append(ac.stage("eleven_plus", PID, lambda: ac.cases(
        [ac.eleven_plus_dataset(rng) for _ in range(6 if tier == "quick" else 40)],
        ["ExactPulp", "Exact(opt)", "Exact(noopt)", "ExactCplex(opt)", "ExactOptim1"], SCHEMES, flags=(1,)), _nt))
    out.append(ac.stage("sparse_cycles", PID, lambda: _cases(
        [ac.cycle_plus_sparse(rng) for _ in range(40 if tier == "quick" else 400)], rng), _nt))
    if tier == "quick":
        out.append(ac.stage("random", PID, lambda: _cases([ac.random_dataset(rng, 6, 5, nmin=3) for _ in range(150)],
                                                          rng, schemes=SCHEMES + ac.grid_sample(rng, 6)), _nt))
    else:
        out.append(ac.stage("grid3x3", PID, lambda: _cases(grids.datasets(3, 3), rng, stride=7), _nt))
        out.append(ac.stage("grid4x2", PID, lambda: _cases(grids.datasets(4, 2), rng, stride=10), _nt))
        out.append(ac.stage("random", PID, lambda: _cases([ac.random_dataset(rng, 7, 6, nmin=3) for _ in range(1500)],
                                                          rng, schemes=SCHEMES + ac.grid_sample(rng, 20)), _nt))
        out.append(ac.stage("sparse", PID, lambda: _cases([ac.sparse_dataset(rng, 6) for _ in range(1500)], rng), _nt))
    return [s for s in out if not only or s.name == only]
