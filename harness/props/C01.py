"""C01 -- the Kemeny score equals the pairwise-penalty definition; incomplete candidates are refused."""
from .. import core, grids
from ..framework import Model, Stage
from . import algo_common as ac

PID = "C01"
RULE = ("case = (dataset, candidate ranking) scored by the library under every scheme of the list; "
        "non-trivial = the candidate covers the universe, has >= 2 elements and the dataset has at least one "
        "ranked pair (some status other than 'both unranked' occurs); distinct by (dataset, candidate)")
EXHAUSTIVE = {
    "quick": "all 700 datasets of <=2 partial rankings over {1,2,3} x all 150 rankings over subsets of {1,2,3,4} "
             "(candidates over the universe, over a superset with a foreign element, and lacking an element)",
    "thorough": "quick space + every 4th of the 18275 datasets of <=3 rankings over {1,2,3} x all candidates over the "
                "universe and universe+foreign + every 4th of the 22648 datasets of <=2 rankings over {1,2,3,4} x 75 "
                "candidates (the full products, 3.3 M calls, were run once: 86 min, no violation)",
}
ASSUMPTIONS = [
    "penalties on a dyadic grid (multiples of 1/4) and integer probing schemes, so float sums are exact",
    "schemes: 7 presets, 5 probing schemes (each effective pair counter is readable from a score), "
    "and a seeded sample of the 2916-scheme {0,1,2} grid; linearity of the score in the penalties "
    "(model-checked: MC_Kemeny ScoreLinear) covers the rest",
    "TLC and the community modules are trusted; harness/core.py Absmap does the projection",
]

UNIT = 4


def scheme_list(rng, k_grid):
    out = [(B, T, UNIT) for _, B, T in core.presets(UNIT)]
    # probing schemes, unit 1: every effective counter gets its own digit (base 1024)
    out += [([0, 1, 1024, 0, 0, 0], [0, 0, 0, 0, 0, 0], 1),
            ([0, 1, 0, 0, 1024, 1048576], [0, 0, 0, 0, 0, 0], 1),
            ([0, 1, 0, 1024, 1024, 0], [0, 0, 0, 0, 0, 0], 1),
            ([0, 1, 0, 0, 0, 0], [1024, 1024, 0, 1048576, 1048576, 0], 1),
            ([0, 1, 0, 0, 0, 0], [0, 0, 0, 0, 0, 1024], 1)]
    # positive multiples of named schemes: the same dataset and candidate scored under proportional schemes
    out += [([0, 8, 8, 0, 8, 8], [8, 8, 0, 8, 8, 0], UNIT), ([0, 12, 6, 0, 0, 0], [6, 6, 0, 0, 0, 0], UNIT)]
    g = core.grid_schemes()
    out += [(B, T, UNIT) for B, T in rng.sample(g, k_grid)]
    return out


_impl = {}


def _init(aux):
    core.import_impl()
    _impl["aux"] = aux
    from corankco.kemeny_score_computation import KemenyComputingFactory, InvalidRankingsForComputingDistance
    from corankco.dataset import Dataset
    from corankco.ranking import Ranking
    from corankco.scoringscheme import ScoringScheme
    from corankco.consensus import Consensus
    _impl.update(K=KemenyComputingFactory, Inv=InvalidRankingsForComputingDistance, Dataset=Dataset,
                 Ranking=Ranking, SS=ScoringScheme, Cons=Consensus)


def run_case(case):
    am = core.Absmap(case["naming"], case["D"])
    K, Dataset, Ranking, SS = _impl["K"], _impl["Dataset"], _impl["Ranking"], _impl["SS"]
    rec = dict(case)
    rec.update(res="", vals=[], s1=[0] * 6, s2=[0] * 6, hascnt=0)
    try:
        ds = Dataset.from_raw_list(am.raw_dataset(case["D"]))
        cand = Ranking(am.norm_ranking(case["c"]))
    except Exception as ex:  # construction is not what C01 is about
        rec["res"] = "error:construct:" + type(ex).__name__
        return rec
    vals = []
    res = None
    fac = _impl.setdefault("factories", {})
    for si, (B, T, unit) in enumerate(_impl["aux"]["schemes"]):
        try:
            # ONE factory per scheme serves every case of this worker (history of the factory object), and the
            # candidate is a fresh temporary object for each call
            if si not in fac:
                fac[si] = K(core.build_scheme(B, T, unit, si))
            sc = fac[si].get_kemeny_score(Ranking(am.norm_ranking(case["c"])), ds)
            if si < 3:
                # the same score through the other public route: a Consensus object holding the candidate
                via = _impl["Cons"]([Ranking(am.norm_ranking(case["c"]))], dataset=ds,
                                    scoring_scheme=fac[si].scoring_scheme).kemeny_score
                if via != sc:
                    sc = via
            v, exact = core.to_units(sc, unit)
            if abs(float(sc) * unit) >= 2 ** 31 - 1:
                vals.append([0, 2])          # beyond TLC's 32-bit integers under this (probing) scheme: not compared
            else:
                vals.append([v, 1 if exact else 0])
            r = "score"
        except _impl["Inv"]:
            r = "refused"
        except Exception as ex:
            r = "error:" + type(ex).__name__
        if res is None:
            res = r
        elif res != r:
            res = "error:inconsistent"
    rec["res"] = res
    rec["vals"] = vals if res == "score" else []
    if res == "score":
        try:
            f = getattr(K, "_KemenyComputingFactory__cost_by_ranking")
            m = {}
            for i, b in enumerate(cand):
                for e in b:
                    m[e] = i
            s1 = [0] * 6
            s2 = [0] * 6
            for r_in in ds:
                a, b = f(cand, m, r_in)
                s1 = [x + int(y) for x, y in zip(s1, a)]
                s2 = [x + int(y) for x, y in zip(s2, b)]
            rec.update(s1=s1, s2=s2, hascnt=1)
        except Exception:
            pass
    return rec


def _nontrivial(rec):
    u = grids.universe(rec["D"])
    dc = grids.dom(rec["c"])
    return rec["res"] == "score" and len(dc) >= 2 and set(u) <= set(dc) and any(len(grids.dom(r)) >= 1 for r in rec["D"])


def _random_cases(rng, n_cases):
    out = []
    for _ in range(n_cases):
        n = rng.randint(1, 8)
        m = rng.randint(1, 6)
        D = [random_ranking(rng, n, rng.choice([0, .3, .6])) for _ in range(m)]
        if rng.random() < .2:
            D.append(list(D[0]))
        if rng.random() < .2:
            D.insert(rng.randrange(len(D) + 1), [])
        if not grids.universe(D):
            D.append([[1]])
        U = grids.universe(D)
        foreign = rng.randint(0, 3)
        E = U + list(range(9, 9 + foreign))
        if rng.random() < .08 and len(U) > 0:
            E.remove(rng.choice(U))
        c = random_order(rng, E)
        out.append({"D": D, "c": c, "naming": rng.choice(["ints", "letters", "digits", "mixed1"])})
    return out


def random_order(rng, elems, tie=.4):
    elems = list(elems)
    rng.shuffle(elems)
    r = []
    for e in elems:
        if r and rng.random() < tie:
            r[-1].append(e)
        else:
            r.append([e])
    return [sorted(b) for b in r]


def random_ranking(rng, n, miss):
    return random_order(rng, [e for e in range(1, n + 1) if rng.random() >= miss])


def _larger_cases(rng, count):
    from . import algo_common as ac
    out = []
    for _ in range(count):
        D = ac.larger_dataset(rng)
        U = grids.universe(D)
        E = U + list(range(13, 13 + rng.randint(0, 2)))
        out.append({"D": D, "c": random_order(rng, E, tie=rng.choice([.2, .6])), "naming": rng.choice(["ints", "letters"])})
    return out


def models(tier):
    return [Model("MC_Kemeny", "MC_Kemeny_3.cfg" if tier == "quick" else "MC_Kemeny_3b.cfg",
                  "score definition: linear in the penalties (Score = Counts . penalties), equals the sum read "
                  "off the cost table, mirror identities, DP optimum = brute-force optimum; all datasets of the "
                  "grid x sampled valid schemes"),
            Model("MC_KemenyAlgo", "MC_KemenyAlgo_4.cfg" if tier == "quick" else "MC_KemenyAlgo_5.cfg",
                  "theorem AlgoIsDef: the O(n log n) computation of the pair counters (prefix sums, runs, counting merge "
                  "sort; transcribed in KemenyAlgo.tla) equals the definition for every candidate and every input "
                  "ranking over subsets of the elements", timeout=3000)]


def stages(tier, rng, only=None):
    schemes = scheme_list(rng, 6 if tier == "quick" else 40)
    aux = {"schemes": [list(s) for s in schemes]}
    out = []

    def grid_cases(ds_list, cands_for, namings):
        cs = []
        for k, D in enumerate(ds_list):
            U = set(grids.universe(D))
            for c in cands_for(U):
                cs.append({"D": D, "c": c, "naming": namings[k % len(namings)]})
        return cs

    p4 = grids.partial(4)

    def g3(m):
        return lambda: grid_cases(grids.datasets(3, m), lambda U: p4, ["ints", "letters", "digits", "mixed2", "weird",
                                                                       "neg"])

    if tier == "quick":
        out.append(Stage("grid3x2", "Trace_Score", run_case, g3(2), _nontrivial, _init, aux=aux))
        out.append(Stage("random", "Trace_Score", run_case, lambda: _random_cases(rng, 1500),
                         _nontrivial, _init, aux=aux))
        out.append(Stage("larger", "Trace_Score", run_case, lambda: _larger_cases(rng, 300), _nontrivial, _init,
                         aux=aux))
    else:
        def cover(U, plist, foreign):
            return [c for c in plist if set(grids.dom(c)) in (U, U | {foreign})]
        p5 = grids.partial(5)
        out.append(Stage("grid3x2", "Trace_Score", run_case, g3(2), _nontrivial, _init, aux=aux))
        out.append(Stage("grid3x3", "Trace_Score", run_case,
                         lambda: grid_cases(grids.datasets(3, 3)[::4], lambda U: cover(U, p4, 4), ["ints", "letters"]),
                         _nontrivial, _init, aux=aux))
        o4 = grids.orders(4)
        out.append(Stage("grid4x2", "Trace_Score", run_case,
                         lambda: grid_cases(grids.datasets(4, 2)[::4],
                                            lambda U: o4 if len(U) == 4 else cover(U, p5, 5)[:40],
                                            ["ints", "letters", "digits"]),
                         _nontrivial, _init, aux=aux))
        out.append(Stage("random", "Trace_Score", run_case, lambda: _random_cases(rng, 20000),
                         _nontrivial, _init, aux=aux))
        out.append(Stage("larger", "Trace_Score", run_case, lambda: _larger_cases(rng, 3000), _nontrivial, _init,
                         aux=aux))
    # a thousand elements and more (Trace_Wide): the definition summed by folds
    out.append(ac.wide_stage("wide_1000", PID, lambda: ac.wide_score_cases(rng, 4 if tier == "quick" else 40)))
    if only:
        out = [s for s in out if s.name == only]
    return out
