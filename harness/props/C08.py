"""C08 -- BioConsert returns a local optimum of the Kemeny score."""
from .. import grids, localrun
from ..framework import Model, Stage
from . import algo_common as ac

PID = "C08"
RULE = ("case = one BioConsert run (default, BioCo, 5 starter lists) with ALL rankings requested or one; TLC checks "
        "every single-element move (join any bucket, new bucket at any position) of every returned ranking against the "
        "0.001 threshold with exact scores; non-trivial = >= 3 elements and the returned ranking is not all-tied")
EXHAUSTIVE = {"quick": "all 700 datasets of <=2 rankings over 3 elements x 7 BioConsert configurations x both flags",
              "thorough": "quick + all 18275 (<=3 rankings, 3 elements) and 22648 (4 elements) datasets for default/BioCo"}
ASSUMPTIONS = ["threshold experiments use unit 1024 (penalties are multiples of 1/1024: gains of 1/1024 may remain, "
               "2/1024 may not)", "move-by-move conformance with spec/LocalSearch.tla and, as drift, with the transcribed scan order of spec/BioScanDefs.tla is in the un-jitted twin stages"]
BIO = ["BioConsert", "Bio[]", "BioCo", "Bio[Borda]", "Bio[Copeland,KwikSort]", "Bio[PickAPerm]", "Bio[PickAPerm,Copeland]",
       "Bio[Borda,Copeland,KwikSort]", "Bio[Borda,BordaBid]"]
SCHEMES = [ac.P_UNI5, ac.P_IND1, ac.P_PSE5, ac.P_UNI1, ac.P_EXT, ac.P_IND5, ac.QUARTER]
# unit 1024: B[1] = 1024 (=1.0), ties cost 1.0 +- 1/1024, 2/1024
FINE = [([0, 1024, 1025, 0, 1024, 1024], [1024, 1024, 0, 1024, 1024, 0], 1024),
        ([0, 1024, 1022, 0, 1024, 1023], [1023, 1023, 0, 1024, 1024, 0], 1024),
        ([0, 1024, 512, 0, 0, 0], [513, 513, 0, 1, 1, 0], 1024),
        ([0, 1024, 511, 1, 2, 1], [512, 512, 0, 2, 2, 1], 1024)]


def _nt(rec):
    return rec["out"] == "consensus" and ac.n_elems(rec) >= 3 and len(rec["K"][0]) > 1


def models(tier):
    ms = [Model("MC_LocalSearch", "MC_LocalSearch_4.cfg" if tier == "quick" else "MC_LocalSearch_5.cfg",
                "the in-place renumbering of _change_bucket/_add_bucket (transcribed) realises the abstract single-"
                "element move and keeps bucket ids dense, for every dense vector, element and target"),
          Model("MC_BioScanThm", "MC_BioScanThm_4.cfg" if tier == "quick" else "MC_BioScanThm_5.cfg",
                "theorem DeltaExact: the cumulated `change`/`add` arrays of the transcribed kernels are exactly the "
                "score differences of the moves, for EVERY cost table (checked on a basis: both sides are linear)")]
    what = ("_improve_one_ranking as a state machine in the scan order of the code, from every departure ranking of "
            "every dataset of the grid: dense ids, max_id_bucket, delta_dist = score difference, every move gains more "
            "than the threshold, the final ranking is a local optimum")
    if tier == "quick":
        cfgs = ["uni5_3_2"]
    else:
        cfgs = [f"{s}_3_2" for s in ("uni5", "uni1", "ind1", "pse5", "ext", "odd", "thr")] + \
               [f"{s}_4_1" for s in ("uni5", "ind1", "pse5", "odd", "thr")] + ["odd_3_3"]
    ms += [Model("BioScan", f"MC_BioScan_{c}.cfg", what) for c in cfgs]
    ms.append(Model("BioScan", "MC_BioScan_live_uni5_3_1.cfg", "liveness: under weak fairness the search terminates"))
    return ms


def _search_cases(dss, schemes):
    out = []
    for k, D in enumerate(dss):
        out.append({"D": D, "sch": list(schemes[k % len(schemes)]), "naming": "ints",
                    "cfg": "BioCo" if k % 3 == 0 else "BioConsert"})
    return out


def twin_stage(name, cases_fn, prop="C08"):
    return Stage(name, "Trace_Local", localrun.run_search, cases_fn, lambda r: len(r.get("moves", [])) >= 1,
                 localrun.init, post=localrun.flatten, chunk=3000, aux={"prop": prop})


def stages(tier, rng, only=None):
    out = [ac.stage("grid3x2", PID, lambda: ac.cases(grids.datasets(3, 2), BIO + ["Bio[BioCo]", "Bio{Copeland}",
                                                                                   "BioValues[Borda]"], SCHEMES,
                                                     namings=["ints", "letters", "weird", "neg"]), _nt,
                    extra_aux={"biofull": 1}),
           twin_stage("moves3x2", lambda: _search_cases(grids.datasets(3, 2), SCHEMES)),
           twin_stage("moves_random", lambda: _search_cases(
               [ac.random_dataset(rng, 6, 5, nmin=3) for _ in range(200 if tier == "quick" else 2000)],
               SCHEMES + FINE))]
    n_rand = 400 if tier == "quick" else 4000
    out.append(ac.stage("random", PID, lambda: ac.cases([ac.random_dataset(rng, 7, 6, nmin=3) for _ in range(n_rand)],
                                                        BIO, SCHEMES + ac.grid_sample(rng, 8)), _nt,
                        extra_aux={"biofull": 1}))
    out.append(ac.stage("tiny_penalties", PID, lambda: ac.cases(
        [ac.random_dataset(rng, 6, 6, nmin=3) for _ in range(n_rand // 2)], BIO, ac.TINY), _nt))
    out.append(ac.stage("cycles", PID, lambda: ac.cases(
        [ac.cyclic_dataset(rng, 3, 6, incomplete=k % 2 == 1) for k in range(n_rand // 2)], BIO, SCHEMES), _nt))
    out.append(ac.stage("mixed_magnitudes", PID, lambda: ac.cases(
        [ac.random_dataset(rng, 6, 6, nmin=3) for _ in range(n_rand // 2)]
        + [ac.cyclic_dataset(rng, 3, 6, incomplete=k % 2 == 1) for k in range(n_rand // 2)], BIO, ac.MIXEDMAG), _nt))
    out.append(ac.stage("reuse_after_mutation", PID, lambda: ac.reuse_mutate_cases(
        grids.datasets(3, 2)[::3] + [ac.random_dataset(rng, 6, 5, nmin=3) for _ in range(n_rand // 2)], BIO, SCHEMES,
        rng, flags=(0,)), _nt))
    out.append(ac.stage("reuse_other_dataset", PID, lambda: ac.reuse_other_cases(
        grids.datasets(3, 2)[::5] + [ac.random_dataset(rng, 6, 5, nmin=3) for _ in range(n_rand // 2)], BIO, SCHEMES,
        rng, flags=(0,)), _nt))
    out.append(ac.stage("larger", PID, lambda: ac.cases([ac.larger_dataset(rng, 10, 25) for _ in range(n_rand // 8)], BIO,
                                                        SCHEMES), _nt))
    out.append(ac.stage("reuse_other_scheme", PID, lambda: ac.reuse_scheme_cases(
        grids.datasets(3, 2)[::3] + [ac.random_dataset(rng, 6, 5, nmin=3) for _ in range(n_rand // 2)], BIO, SCHEMES,
        rng, flags=(0,)), _nt))
    out.append(ac.stage("lookalike_rankings", PID, lambda: ac.cases(ac.lookalike_datasets(rng, 200 if tier == "quick" else 1500),
                                                                    BIO, SCHEMES, namings=["weird"]), _nt))
    out.append(ac.stage("hard_corpus", PID, lambda: ac.corpus_cases(BIO, flags=(0,)), _nt))
    out.append(ac.stage("after_the_exact_algorithm", PID, lambda: ac.simple_reuse_cases(
        [ac.random_dataset(rng, 5, 5, nmin=3) for _ in range(n_rand // 4)] + [ac.cyclic_dataset(rng, 3, 5) for _ in range(n_rand // 4)],
        ["BioConsert", "BioCo", "Bio[Copeland,KwikSort]"], ac.MIXEDMAG[2:] + SCHEMES[:2],
        {"kind": "prealg", "cfg0": "ExactPulp"}, flags=(0,)), _nt))
    out.append(ac.stage("threshold", PID, lambda: ac.cases([ac.random_dataset(rng, 5, 4, nmin=3) for _ in range(n_rand)],
                                                           BIO, FINE), _nt, extra_aux={"biofull": 1}))
    if tier == "thorough":
        out.append(ac.stage("grid3x3", PID, lambda: ac.cases(grids.datasets(3, 3), ["BioConsert", "BioCo"], SCHEMES,
                                                             flags=(0,)), _nt))
        out.append(ac.stage("grid4x2", PID, lambda: ac.cases(grids.datasets(4, 2), ["BioConsert", "BioCo"], SCHEMES,
                                                             flags=(0,)), _nt))
    # scores in the hundreds and thousands with moves that gain 2/1024: a stopping rule relative to the score shows here
    out.append(ac.stage("larger_fine", PID, lambda: ac.cases(
        [ac.larger_dataset(rng, 10, 25) for _ in range(n_rand // 6)],
        ["BioConsert", "BioCo", "Bio[Copeland,KwikSort]"], FINE), _nt))
    # 30 elements, picked (tools/find_slow_local.py) because the local search needs 12 to 18 passes over the elements
    def slow():
        import json
        import os
        corpus = json.load(open(os.path.join(os.path.dirname(os.path.dirname(__file__)), "corpus", "slow_local.json")))
        rng.shuffle(corpus)
        cs = []
        for ent in corpus[:(8 if tier == "quick" else 60)]:
            cs += ac.cases([ent["D"]], [ent["cfg"]], [[ac.P_UNI5, ac.P_PSE5][ent["sch"]]], flags=(0,))
        return cs
    out.append(ac.stage("many_passes", PID, slow, _nt))
    return [s for s in out if not only or s.name == only]
