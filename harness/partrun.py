"""Runs of the partitioning API (C06, C07): the two ordered partitions, and consistent_with."""
from . import core

_impl = {}


def init(aux=None):
    core.import_impl()
    from corankco.dataset import Dataset
    from corankco.ranking import Ranking
    from corankco.consensus import Consensus
    from corankco.scoringscheme import ScoringScheme
    from corankco.partitioning.ordered_partition import OrderedPartition
    _impl.update(Dataset=Dataset, Ranking=Ranking, Consensus=Consensus, SS=ScoringScheme, OP=OrderedPartition)


def run_partitions(case):
    rec = dict(case)
    rec.update(op="partitions", out="", pc=[], pf=[])
    am = core.Absmap(case["naming"], case["D"])
    B, T, unit = case["sch"]
    try:
        ds = _impl["Dataset"].from_raw_list(am.raw_dataset(case["D"]), name="study")     # every dataset of a process bears the same name (two files with one base name)
        ss = core.build_scheme(B, T, unit, case.get("schemeform", case["id"] % 5))
        if case.get("lex") is not None:
            lib, tlc = core.lex_vectors(case["lex"])
            ss = _impl["SS"](lib)
            rec["sch"] = [tlc[0], tlc[1], 1]
        if case.get("prevD"):
            try:
                pds = _impl["Dataset"].from_raw_list(core.Absmap(case["naming"], case["prevD"]).raw_dataset(case["prevD"]))
                _impl["OP"].parfront_partition(pds, ss)
                _impl["OP"].parcons_partition(pds, ss)
            except Exception:
                pass
        pc = core.with_alarm(20, _impl["OP"].parcons_partition, ds, ss)
        pf = core.with_alarm(20, _impl["OP"].parfront_partition, ds, ss)
        rec["pc"] = [sorted(am.elem(e) for e in g) for g in pc]
        rec["pf"] = [sorted(am.elem(e) for e in g) for g in pf]
        rec["out"] = "ok"
    except core.Timeout:
        rec["out"] = "timeout"
    except Exception as ex:
        rec["out"] = "error:" + type(ex).__name__
    return rec


def run_consistent(case):
    """case: {"P": groups, "c": ranking, "naming"} ; optionally "from": "library" when P was computed by the library"""
    rec = dict(case)
    rec.update(op="consistent", out="")
    am = core.Absmap(case["naming"])
    try:
        P = _impl["OP"]([{_impl_elem(am, x) for x in g} for g in case["P"]])
        cons = _impl["Consensus"]([_impl["Ranking"](am.norm_ranking(case["c"]))])
        for prev in case.get("prev", []):
            # history of the SAME partition object: earlier queries with other consensus rankings
            try:
                core.with_alarm(5, P.consistent_with, _impl["Consensus"]([_impl["Ranking"](am.norm_ranking(prev))]))
            except Exception:
                pass
        r = core.with_alarm(5, P.consistent_with, cons)
        rec["out"] = "true" if r is True else "false" if r is False else "error:NotBool"
    except core.Timeout:
        rec["out"] = "timeout"
    except Exception as ex:
        rec["out"] = "error:" + type(ex).__name__
    return rec


def _impl_elem(am, x):
    from corankco.element import Element
    return Element(am.value(x))
