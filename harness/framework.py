"""
Generic flow of a property check.

A driver module (harness/props/Cxx.py) provides

  PID                      property id
  models(tier)             -> list of Model (design-level TLC runs on the specification itself)
  stages(tier, rng)        -> list of Stage (cases -> implementation -> records -> Trace_* spec -> verdicts)
  ASSUMPTIONS              list of strings
  RULE                     what makes a case non-trivial (text) ; Stage.nontrivial(record) decides per record

The framework runs everything, attributes violations to known findings (only through the verdict class
"known" computed by TLC from an explained-by predicate written in the specification, or through a
literal signature match), prints VIOLATION / KNOWN-FINDING / MODEL-DRIFT lines, writes the evidence
file and returns the exit status (0 held, 1 violation, 2 machinery failure).
"""
import importlib
import json
import os
import random
import sys
import time
import traceback

from . import core


class Model:
    def __init__(self, module, cfg, desc, claims=None, timeout=3600, env=None, expect=None):
        self.module, self.cfg, self.desc = module, cfg, desc
        self.expect = expect      # "violated": a configuration that records a named deviation and MUST be refuted
        self.claims = claims      # name of the property clause this model check establishes at design level
        self.timeout = timeout
        self.env = env


class Stage:
    def __init__(self, name, module, run, cases, nontrivial=None, init=None, cfg=None, env=None,
                 chunk=20000, procs=None, sample=None, post=None, aux=None, killable=None):
        self.name = name
        self.module = module        # Trace_* module
        self.run = run              # picklable top-level function: case -> record (adds observations)
        self.cases = cases          # list of dicts (JSON-able), each gets a unique "id"
        self.nontrivial = nontrivial or (lambda rec: True)
        self.init = init
        self.cfg = cfg
        self.env = env
        self.chunk = chunk
        self.procs = procs
        self.sample = sample
        self.killable = killable    # (on_timeout, budget): run the cases in killable forked batches (core.pmap)
        self.post = post            # optional: (records) -> records  (harness-side cross-record joins)
        self.aux = aux              # shared JSON-able data (scheme tables ...): given to init() and to TLC (AUX_FILE)


def _finding_matches(f, pid, detail, rec):
    if f.get("property") != pid:
        return False
    if f.get("clause") and f["clause"] != detail:
        return False
    sig = f.get("signature")
    if sig:
        for k, v in sig.items():
            if rec.get(k) != v:
                return False
    return True


def run_check(pid, tier, replay=None):
    t0 = time.time()
    core.setup_impl_env()
    try:
        drv = importlib.import_module(f"harness.props.{pid}")
    except ModuleNotFoundError:
        print(f"no driver for {pid}")
        return 2
    rng = random.Random(core.seed() * 1000003 + sum(map(ord, pid)))
    known = core.load_known_findings()
    findings = [f for f in known.get("findings", []) if f.get("property") == pid]
    states = transitions = 0
    traces = 0
    evaluations = 0
    nontrivial_keys = set()
    samples = []
    drift = {}
    skipped = {}
    known_hits = {}
    violations = []
    model_notes = []
    stage_notes = []
    viol_hist = {}
    try:
        if not replay:
            import shutil
            shutil.rmtree(os.path.join(core.WORK, "replays" + os.environ.get("VERIF_REPLAY_SUFFIX", ""), pid), ignore_errors=True)
        if replay:
            with open(replay) as f:
                payload = json.load(f)
            stage_list = drv.replay_stages(payload) if hasattr(drv, "replay_stages") else \
                _default_replay(drv, payload, tier, rng)
            model_list = []
        else:
            model_list = drv.models(tier) if hasattr(drv, "models") else []
            stage_list = None
        # ---------------- design-level model checks
        for m in model_list:
            res = core.model_check(m.module, m.cfg, timeout=m.timeout, env=m.env)
            states += res.distinct
            transitions += res.generated
            note = {"module": m.module, "cfg": m.cfg, "what": m.desc, "distinct_states": res.distinct,
                    "states_generated": res.generated, "wall_s": round(res.wall, 1),
                    "result": "violated: " + ",".join(res.violated) if res.violated else "no error"}
            model_notes.append(note)
            if getattr(m, "expect", None) == "violated":
                if not res.violated:
                    raise core.MachineryError(f"model {m.module}/{m.cfg} was expected to be refuted and is not")
                note["result"] = "refuted as expected: " + ",".join(res.violated)
                continue
            if res.violated:
                # a design-level theorem of the specification fails: this is a statement about the
                # specification/algorithm, reported as machinery-level unless the driver says otherwise
                p = core.write_replay(pid, f"model_{m.cfg}", {"kind": "model", "module": m.module, "cfg": m.cfg,
                                                               "tlc_tail": res.out[-6000:]})
                if getattr(m, "claims", None):
                    violations.append((f"model:{m.cfg}", m.claims, p))
                else:
                    raise core.MachineryError(f"model {m.module}/{m.cfg} violated {res.violated}; see {p}")
        # ---------------- conformance stages
        if stage_list is None:
            stage_list = drv.stages(tier, rng)
        next_id = 1
        for st in stage_list:
            cases = st.cases() if callable(st.cases) else st.cases
            for c in cases:
                c["id"] = next_id
                next_id += 1
            ts = time.time()
            if st.run is None:
                records = cases
            else:
                records = core.pmap(st.run, cases, initfn=st.init, procs=st.procs or core.NCPU, aux=st.aux,
                                    killable=getattr(st, "killable", None))
            if st.post:
                records = st.post(records)
            t_impl = time.time() - ts
            verdicts, stats = core.trace_verdicts(st.module, records, cfg=st.cfg, env=st.env,
                                                  tag=f"{pid}_{st.name}", chunk=st.chunk, aux=st.aux)
            states += stats["distinct"]
            transitions += stats["generated"]
            traces += len(records)
            evaluations += len(records)
            nt = 0
            byid = {r["id"]: r for r in records}
            counts = {}
            for rid, (cls, detail) in sorted(verdicts.items()):
                rec = byid[rid]
                counts[cls] = counts.get(cls, 0) + 1
                if cls == "skip":
                    skipped[detail] = skipped.get(detail, 0) + 1
                    continue
                if st.nontrivial(rec):
                    key = json.dumps({k: v for k, v in rec.items() if k != "id"}, sort_keys=True)
                    h = hash(key)
                    if h not in nontrivial_keys:
                        nontrivial_keys.add(h)
                        nt += 1
                if cls == "drift":
                    k = f"{st.name}:{detail}"
                    drift.setdefault(k, []).append(rid)
                elif cls == "known":
                    known_hits.setdefault(detail, []).append(rid)
                elif cls == "viol":
                    fid = None
                    for f in findings:
                        if _finding_matches(f, pid, detail, rec):
                            fid = f["id"]
                            break
                    if fid:
                        known_hits.setdefault(fid, []).append(rid)
                    else:
                        if len(violations) < 40:
                            p = core.write_replay(pid, f"{st.name}_{rid}", {"kind": "case", "stage": st.name,
                                                                            "clause": detail, "record": rec,
                                                                            "aux": st.aux})
                        else:
                            p = violations[0][2]
                        violations.append((f"{st.name}#{rid}", detail, p))
                        hk = f"{detail} cfg={rec.get('cfg', '-')}"
                        viol_hist[hk] = viol_hist.get(hk, 0) + 1
            want = st.sample or 2
            for r in records[:: max(1, len(records) // want)][:want]:
                samples.append({"stage": st.name, "record": _shrink(r), "verdict": list(verdicts[r["id"]])})
            stage_notes.append({"stage": st.name, "trace_spec": st.module, "records": len(records),
                                "verdict_counts": counts, "nontrivial_distinct": nt,
                                "impl_wall_s": round(t_impl, 1), "tlc_wall_s": round(stats["wall"], 1),
                                "tlc_states": stats["distinct"]})
    except core.MachineryError as ex:
        print(f"MACHINERY-FAILURE property={pid} {ex}")
        return 2
    except Exception:
        traceback.print_exc()
        print(f"MACHINERY-FAILURE property={pid} unexpected exception")
        return 2

    # ---------------- report
    for k, ids in sorted(drift.items()):
        print(f"MODEL-DRIFT property={pid} {k} records={len(ids)} (first id {ids[0]}) -- not a verdict")
    for fid, ids in sorted(known_hits.items()):
        f = next((x for x in known.get("findings", []) if x["id"] == fid), {"what": fid})
        print(f"KNOWN-FINDING: property={pid} {fid} {f.get('what', '')} (hits={len(ids)})")
    shown = 0
    for where, clause, path in violations:
        if shown < 25:
            print(f"VIOLATION property={pid} replay={path} clause={clause} at={where}")
        shown += 1
    for hk, cnt in sorted(viol_hist.items()):
        print(f"VIOLATION-SUMMARY property={pid} {hk} count={cnt}")
    if shown > 25:
        print(f"... {shown - 25} more violations (replay files under work/replays/{pid}/)")
    if not replay and not os.environ.get("VERIF_NO_EVIDENCE"):
        coverage = {
            "states": max(states, 0), "transitions": max(transitions, 0),
            "traces_validated_against_impl": traces,
            "evaluations": evaluations,
            "distinct_nontrivial": len(nontrivial_keys),
            "rule": getattr(drv, "RULE", ""),
            "samples": samples[:12],
            "exhaustive": bool(getattr(drv, "EXHAUSTIVE", {}).get(tier)),
            "exhaustive_space": getattr(drv, "EXHAUSTIVE", {}).get(tier, ""),
            "models": model_notes, "stages": stage_notes,
            "model_drift": {k: len(v) for k, v in drift.items()},
            "skipped_outside_domain": skipped,
            "known_finding_hits": {k: len(v) for k, v in known_hits.items()},
            "checker_cmd": "java -cp tla2tools.jar tlc2.TLC (see harness/core.py run_tlc)",
        }
        core.write_evidence(pid, tier, coverage, time.time() - t0, len(violations),
                            getattr(drv, "ASSUMPTIONS", []))
    dt = time.time() - t0
    print(f"SUMMARY property={pid} tier={tier} states={states} records={traces} violations={len(violations)} "
          f"known={sum(len(v) for v in known_hits.values())} drift={sum(len(v) for v in drift.values())} "
          f"wall={dt:.1f}s")
    return 1 if violations else 0


def _shrink(rec, limit=600):
    s = json.dumps(rec, separators=(",", ":"))
    if len(s) <= limit:
        return rec
    out = {}
    for k, v in rec.items():
        sv = json.dumps(v, separators=(",", ":"))
        out[k] = v if len(sv) <= 160 else sv[:157] + "..."
    return out


def _default_replay(drv, payload, tier, rng):
    """Re-execute one recorded case: same stage, the single case rebuilt from the stored record."""
    if payload.get("kind") != "case":
        raise core.MachineryError("this replay file records a model-level result; rerun the check itself")
    name = payload["stage"]
    case = {k: v for k, v in payload["record"].items() if k != "id"}
    for st in drv.stages(tier, rng, only=name):
        if st.name == name:
            st.cases = [case]
            st.aux = payload.get("aux")
            return [st]
    raise core.MachineryError(f"stage {name} not found")


def main(argv):
    import argparse
    ap = argparse.ArgumentParser()
    ap.add_argument("pid")
    ap.add_argument("--tier", default=os.environ.get("VERIF_TIER", "quick"))
    ap.add_argument("--replay")
    a = ap.parse_args(argv)
    if a.tier not in ("quick", "thorough"):
        a.tier = "quick"
    return run_check(a.pid, a.tier, a.replay)


if __name__ == "__main__":
    sys.exit(main(sys.argv[1:]))
