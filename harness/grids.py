"""Input spaces exported by TLC from spec/Grid.tla (cached under work/grids, keyed by the spec text)."""
import os
from . import core


def _cfg(n, m, what):
    name = f"Grid_{what}_{n}_{m}.cfg"
    p = os.path.join(core.SPEC, name)
    txt = f'CONSTANTS N = {n} M = {m} What = "{what}"\n'
    if not os.path.exists(p) or open(p).read() != txt:
        with open(p, "w") as f:
            f.write(txt)
    return name


def datasets(n, m):
    """All datasets with 1..m partial rankings over 1..n (non-empty universe). list of list of list of list"""
    out = os.path.join(core.workdir("grids"), f"datasets_{n}_{m}.ndjson")
    core.export_from_tlc("Grid", _cfg(n, m, "datasets"), out)
    return core.load_ndjson(out)


def orders(n):
    out = os.path.join(core.workdir("grids"), f"orders_{n}.ndjson")
    core.export_from_tlc("Grid", _cfg(n, 1, "orders"), out)
    return core.load_ndjson(out)


def partial(n):
    out = os.path.join(core.workdir("grids"), f"partial_{n}.ndjson")
    core.export_from_tlc("Grid", _cfg(n, 1, "partial"), out)
    return core.load_ndjson(out)


def universe(d):
    return sorted({x for r in d for b in r for x in b})


def dom(r):
    return sorted({x for b in r for x in b})
