"""
Shared machinery of the corankco verification harness.

  * locating the code under test (CORANKCO_REPO, default /repo) and importing it
  * running TLC (model checks, grid exports, trace validation with total verdicts)
  * parsing TLA+ values printed by TLC
  * naming schemes (abstract element numbers <-> concrete element names)
  * process pool for executing the implementation
  * evidence files, replay files, known findings

Nothing in here computes an oracle: every expected value comes from TLC.
"""
import functools
import json
import os
import re
import subprocess
import sys
import time
import hashlib
import shutil
import signal
import multiprocessing as mp

VERIF = os.path.dirname(os.path.dirname(os.path.abspath(__file__)))
SPEC = os.path.join(VERIF, "spec")
WORK = os.path.join(VERIF, "work")
EVID = os.path.join(VERIF, "evidence")
REPO = os.environ.get("CORANKCO_REPO", "/repo")
TLA_CP = "/opt/veriftools/tla/tla2tools.jar:/opt/veriftools/tla/CommunityModules-deps.jar"
NCPU = min(16, os.cpu_count() or 4)


def seed():
    try:
        return int(os.environ.get("VERIF_SEED", "0"))
    except ValueError:
        return 0


def workdir(*parts):
    p = os.path.join(WORK, *parts)
    os.makedirs(p, exist_ok=True)
    return p


# --------------------------------------------------------------------------- implementation import
def setup_impl_env():
    """Environment for every process that imports the implementation."""
    os.environ.setdefault("PYTHONHASHSEED", "0")
    os.environ.setdefault("NUMBA_CACHE_DIR", workdir("numba"))
    os.environ["CORANKCO_VERIF"] = "1"
    if REPO not in sys.path:
        sys.path.insert(0, REPO)


def import_impl():
    setup_impl_env()
    import corankco  # noqa: F401
    got = os.path.realpath(os.path.dirname(os.path.dirname(corankco.__file__)))
    if got != os.path.realpath(REPO):
        raise RuntimeError(f"corankco imported from {got}, expected {REPO}")
    return corankco


# --------------------------------------------------------------------------- TLA+ value parser
class TlaParseError(Exception):
    pass


def parse_tla(text):
    """Parse a TLA+ value as printed by TLC: ints, strings, booleans, <<..>>, {..},
    records [a |-> v, ..], functions (k :> v @@ ..), intervals a..b."""
    pos = 0
    n = len(text)

    def ws():
        nonlocal pos
        while pos < n and text[pos] in " \t\r\n":
            pos += 1

    def value():
        nonlocal pos
        ws()
        if text.startswith("<<", pos):
            pos += 2
            items = []
            ws()
            if text.startswith(">>", pos):
                pos += 2
                return tuple(items)
            while True:
                items.append(value())
                ws()
                if text.startswith(",", pos):
                    pos += 1
                    continue
                if text.startswith(">>", pos):
                    pos += 2
                    return tuple(items)
                raise TlaParseError(f"expected , or >> at {pos}: {text[pos:pos+30]!r}")
        if text.startswith("{", pos):
            pos += 1
            items = []
            ws()
            if text.startswith("}", pos):
                pos += 1
                return frozenset()
            while True:
                items.append(value())
                ws()
                if text.startswith(",", pos):
                    pos += 1
                    continue
                if text.startswith("}", pos):
                    pos += 1
                    return frozenset(items)
                raise TlaParseError(f"expected , or }} at {pos}: {text[pos:pos+30]!r}")
        if text.startswith("[", pos):
            pos += 1
            rec = {}
            while True:
                ws()
                m = re.compile(r"[A-Za-z_][A-Za-z0-9_]*").match(text, pos)
                if not m:
                    raise TlaParseError(f"field name expected at {pos}")
                name = m.group(0)
                pos = m.end()
                ws()
                if not text.startswith("|->", pos):
                    raise TlaParseError(f"|-> expected at {pos}")
                pos += 3
                rec[name] = value()
                ws()
                if text.startswith(",", pos):
                    pos += 1
                    continue
                if text.startswith("]", pos):
                    pos += 1
                    return rec
                raise TlaParseError(f"expected , or ] at {pos}")
        if text.startswith("(", pos):
            pos += 1
            fn = {}
            while True:
                k = value()
                ws()
                if not text.startswith(":>", pos):
                    raise TlaParseError(f":> expected at {pos}")
                pos += 2
                fn[k] = value()
                ws()
                if text.startswith("@@", pos):
                    pos += 2
                    continue
                if text.startswith(")", pos):
                    pos += 1
                    return fn
                raise TlaParseError(f"expected @@ or ) at {pos}")
        if text.startswith('"', pos):
            end = pos + 1
            out = []
            while text[end] != '"':
                if text[end] == "\\":
                    end += 1
                out.append(text[end])
                end += 1
            pos = end + 1
            return "".join(out)
        m = re.compile(r"-?\d+").match(text, pos)
        if m:
            pos = m.end()
            v = int(m.group(0))
            ws()
            if text.startswith("..", pos):
                pos += 2
                hi = value()
                return frozenset(range(v, hi + 1))
            return v
        if text.startswith("TRUE", pos):
            pos += 4
            return True
        if text.startswith("FALSE", pos):
            pos += 5
            return False
        raise TlaParseError(f"unexpected text at {pos}: {text[pos:pos+30]!r}")

    v = value()
    ws()
    if pos != n:
        raise TlaParseError(f"trailing text at {pos}: {text[pos:pos+30]!r}")
    return v


def tla_to_json(v):
    """frozenset -> sorted list, tuple -> list, dict with int keys 1..n -> list."""
    if isinstance(v, (frozenset, set)):
        return sorted((tla_to_json(x) for x in v), key=lambda z: json.dumps(z))
    if isinstance(v, tuple):
        return [tla_to_json(x) for x in v]
    if isinstance(v, dict):
        if v and all(isinstance(k, int) for k in v) and sorted(v) == list(range(1, len(v) + 1)):
            return [tla_to_json(v[k]) for k in sorted(v)]
        return {str(k): tla_to_json(x) for k, x in v.items()}
    return v


# --------------------------------------------------------------------------- running TLC
class TlcResult:
    def __init__(self, rc, out, wall):
        self.rc = rc
        self.out = out
        self.wall = wall
        self.generated = 0
        self.distinct = 0
        m = None
        for m in re.finditer(r"(\d+) states generated, (\d+) distinct states found", out):
            pass
        if m:
            self.generated = int(m.group(1))
            self.distinct = int(m.group(2))
        self.violated = re.findall(r"Error: Invariant (\w+) is violated", out)
        self.violated += ["assumption@" + m for m in re.findall(r"Error: Assumption (line \d+)", out)]
        self.violated += re.findall(r"Error: Action property (\w+) is violated", out)
        self.violated += ["temporal" for _ in re.findall(r"Error: Temporal properties were violated", out)]
        self.ok_finished = "Model checking completed. No error has been found." in out
        self.errors = [l for l in out.splitlines() if l.startswith("Error:") and "is violated" not in l
                       and "Assumption" not in l and "were violated" not in l
                       and "The behavior up to this point" not in l]


def run_tlc(module, cfg=None, env=None, workers=NCPU, extra=(), timeout=3600, tag=None, java_opts=()):
    """Run TLC on spec/<module>.tla with spec/<cfg>. Returns TlcResult. Metadata goes to work/."""
    tag = tag or module
    meta = os.path.join(WORK, "tlc", f"{tag}.{os.getpid()}")
    shutil.rmtree(meta, ignore_errors=True)
    os.makedirs(meta, exist_ok=True)
    cmd = ["java", "-XX:+UseParallelGC", "-Xmx12g", "-Xss16m", *java_opts, "-cp", TLA_CP, "tlc2.TLC",
           "-workers", str(workers), "-metadir", meta, "-noGenerateSpecTE"]
    if cfg:
        cmd += ["-config", cfg]
    cmd += list(extra)
    cmd += [module + ".tla"]
    e = dict(os.environ)
    if env:
        e.update({k: str(v) for k, v in env.items()})
    t0 = time.time()
    try:
        p = subprocess.run(cmd, cwd=SPEC, env=e, stdout=subprocess.PIPE, stderr=subprocess.STDOUT,
                           timeout=timeout, text=True)
        rc, out = p.returncode, p.stdout
    except subprocess.TimeoutExpired as ex:
        rc, out = 124, (ex.stdout or b"").decode() if isinstance(ex.stdout, bytes) else (ex.stdout or "")
        out += "\nTLC TIMEOUT\n"
    shutil.rmtree(meta, ignore_errors=True)
    return TlcResult(rc, out, time.time() - t0)


class MachineryError(Exception):
    """Something in the verification machinery itself failed (exit status 2)."""


VERDICT_RE = re.compile(r'<<\s*"V",\s*(-?\d+),\s*"([^"]*)",\s*"([^"]*)"\s*>>')


def trace_verdicts(module, records, cfg=None, tag=None, env=None, timeout=3600, chunk=None, aux=None):
    """Validate recorded implementation behaviour with a Trace_* specification.

    `records` is a list of JSON-able dicts with a unique integer "id".  The trace specification
    prints one line  <<"V", id, class, detail>>  per record; class is "ok", "skip" (input outside
    the property's domain), "drift" (model more precise than the property), "known" (explained by a
    listed finding) or "viol" (detail = the property clause that failed).
    Returns (verdicts: dict id -> (class, detail), stats)."""
    tag = tag or module
    cfg = cfg or module + ".cfg"
    d = workdir("traces")
    verdicts = {}
    stats = {"generated": 0, "distinct": 0, "wall": 0.0, "runs": 0}
    chunks = [records] if not chunk else [records[i:i + chunk] for i in range(0, len(records), chunk)]
    auxpath = os.path.join(d, f"{tag}.{os.getpid()}.aux.json")
    with open(auxpath, "w") as f:
        json.dump(aux if aux is not None else {"none": 0}, f)
    for ci, recs in enumerate(chunks):
        if not recs:
            continue
        path = os.path.join(d, f"{tag}.{os.getpid()}.{ci}.ndjson")
        with open(path, "w") as f:
            for r in recs:
                f.write(json.dumps(r, separators=(",", ":")))
                f.write("\n")
        e = {"TRACE_FILE": path, "AUX_FILE": auxpath}
        if env:
            e.update(env)
        res = run_tlc(module, cfg, env=e, extra=["-continue"], timeout=timeout, tag=f"{tag}.{ci}")
        stats["generated"] += res.generated
        stats["distinct"] += res.distinct
        stats["wall"] += res.wall
        stats["runs"] += 1
        got = {}
        for m in VERDICT_RE.finditer(res.out):
            got[int(m.group(1))] = (m.group(2), m.group(3))
        ids = {r["id"] for r in recs}
        if set(got) != ids:
            log = os.path.join(d, f"{tag}.{os.getpid()}.{ci}.tlc.log")
            with open(log, "w") as f:
                f.write(res.out)
            raise MachineryError(f"TLC gave {len(got)} verdicts for {len(ids)} records "
                                 f"(rc={res.rc}); log: {log}")
        verdicts.update(got)
        os.unlink(path)
    return verdicts, stats


def model_check(module, cfg, tag=None, timeout=3600, env=None, extra=(), workers=NCPU):
    """Run an exhaustive model configuration; raise MachineryError unless TLC finishes normally.
    Returns the TlcResult (caller inspects .violated)."""
    res = run_tlc(module, cfg, env=env, extra=extra, timeout=timeout, tag=tag or cfg.replace(".cfg", ""),
                  workers=workers)
    if not res.ok_finished and not res.violated:
        log = os.path.join(workdir("tlc"), f"{tag or cfg}.fail.log")
        with open(log, "w") as f:
            f.write(res.out)
        raise MachineryError(f"TLC did not finish on {module}/{cfg} (rc={res.rc}); log: {log}")
    return res


# --------------------------------------------------------------------------- TLC-exported grids
def export_from_tlc(module, cfg, outfile, env=None, timeout=1800):
    """Run a specification whose evaluation writes an ndjson file (IOEnv.OUT_FILE); cache by spec hash."""
    h = hashlib.sha256()
    for fn in sorted(os.listdir(SPEC)):
        if fn.endswith(".tla") and fn.split(".")[0] in (module, "RankBase", "Kemeny", "Scheme"):
            h.update(open(os.path.join(SPEC, fn), "rb").read())
    h.update(open(os.path.join(SPEC, cfg), "rb").read())
    h.update(json.dumps(env or {}, sort_keys=True).encode())
    stamp = outfile + ".sha"
    if os.path.exists(outfile) and os.path.exists(stamp) and open(stamp).read() == h.hexdigest():
        return outfile
    e = {"OUT_FILE": outfile}
    if env:
        e.update(env)
    res = run_tlc(module, cfg, env=e, timeout=timeout, tag="export_" + os.path.basename(outfile))
    if not os.path.exists(outfile) or res.errors:
        raise MachineryError(f"grid export {module}/{cfg} failed:\n{res.out[-2000:]}")
    with open(stamp, "w") as f:
        f.write(h.hexdigest())
    return outfile


def load_ndjson(path):
    out = []
    with open(path) as f:
        for line in f:
            line = line.strip()
            if line:
                out.append(json.loads(line))
    return out


# --------------------------------------------------------------------------- naming schemes
# abstract elements are 1..N (and foreign ones above N); a naming gives each a concrete name
def naming(kind, n_max=20):
    """Return dict abstract int -> concrete name.

    ints     : k -> k (int)
    digits   : k -> str(k)  (digit strings: the dataset re-types them to int)
    letters  : k -> 'a','b',...
    mixedK   : element K is a letter, all others digit strings (dataset stays str-typed)
    collide  : k -> 8*(k-1)  (ints colliding in CPython's 8-slot set tables)
    big      : k -> 100+k ints
    """
    if kind == "ints":
        return {k: k for k in range(1, n_max + 1)}
    if kind == "digits":
        return {k: str(k) for k in range(1, n_max + 1)}
    if kind == "letters":
        abc = "abcdefghijklmnopqrstuvwxyz"
        return {k: (abc[k - 1] if k <= 26 else abc[(k - 1) // 26 - 1] + abc[(k - 1) % 26]) for k in range(1, n_max + 1)}
    if kind.startswith("mixed") and kind[5:].isdigit():
        lk = int(kind[5:])
        return {k: ("z" if k == lk else str(k)) for k in range(1, n_max + 1)}
    if kind == "collide":
        return {k: 8 * (k - 1) for k in range(1, n_max + 1)}
    if kind == "scatter":
        # ints whose order inside a CPython set depends on the other members of the set
        w = [16, 17, 3, 24, 1, 33, 9, 40, 25, 2, 64, 11]
        return {k: (w[k - 1] if k <= len(w) else 100 + k) for k in range(1, n_max + 1)}
    if kind == "big":
        return {k: 100 + k for k in range(1, n_max + 1)}
    if kind == "mixedraw":
        # raw ints together with a raw word: a dataset whose rankings mix python ints and strings
        return {k: ("w" if k == 1 else k) for k in range(1, n_max + 1)}
    if kind == "intish":
        # strings that int() accepts but that are not plain digit strings, next to the plain ones
        w = ["7", "+7", "1_0", "10", " 4".strip() + "_", "4", "-0", "0"]
        return {k: w[(k - 1) % len(w)] + ("" if k <= len(w) else "x" + str(k)) for k in range(1, n_max + 1)}
    if kind == "zeropad":
        # digit strings that denote the same number; the letter keeps the dataset str-typed
        w = ["7", "07", "x", "007", "70", "0070", "y", "8", "08", "z", "9", "09"]
        return {k: w[(k - 1) % len(w)] + ("" if k <= len(w) else "_" + str(k)) for k in range(1, n_max + 1)}
    if kind == "weird":
        # names containing the characters of the printed form of a ranking: different rankings may PRINT alike
        w = ["a", "b", "a, b", "c", "a}, {b", "b}, {c", "{a", "d", "e", "f", "g", "h"]
        return {k: w[(k - 1) % len(w)] + ("" if k <= len(w) else str(k)) for k in range(1, n_max + 1)}
    if kind == "neg":
        return {k: -k for k in range(1, n_max + 1)}
    if kind == "zero":
        return {k: k - 1 for k in range(1, n_max + 1)}
    raise ValueError(kind)


def _intlike(name):
    return isinstance(name, int) or (isinstance(name, str) and name.isdigit())


class Absmap:
    """Concretisation abstract -> concrete and projection concrete -> abstract for one naming scheme
    and one dataset.  The library types a dataset `int` when every name is integer-like and `str`
    otherwise (property C16), so the concrete value of an element depends on the whole dataset."""

    def __init__(self, kind, D=None, n_max=20):
        self.kind = kind
        used_d = sorted({x for r in D for b in r for x in b}) if D is not None else []
        self.names = naming(kind, max([n_max] + [x + 8 for x in used_d]))
        if D is None:
            used = list(self.names)
        else:
            used = used_d
        self.is_int = all(_intlike(self.names[x]) for x in used) if used else True
        self.rev = {}
        for k, v in self.names.items():
            cv = self.value(k)
            self.rev[(type(cv), cv)] = k

    def value(self, k):
        """concrete value of abstract element k as an element of this dataset"""
        v = self.names[k]
        if self.is_int:
            return int(v) if _intlike(v) else str(v)
        return str(v)

    def raw_ranking(self, r):
        """abstract ranking (list of lists of ints) -> raw python list of sets of names"""
        return [{self.names[x] for x in b} for b in r]

    def raw_dataset(self, d):
        return [self.raw_ranking(r) for r in d]

    def norm_ranking(self, r):
        """abstract ranking -> list of sets of values as the dataset holds them after normalisation
        (digit strings become ints when the whole dataset is integer-like): the way a user writes a
        candidate for such a dataset"""
        return [{self.value(x) for x in b} for b in r]

    def elem(self, e):
        """concrete Element (or raw int/str) -> abstract int; 0 when it is not an element of the
        naming with the expected type (foreign or re-typed element)."""
        v = getattr(e, "value", e)
        t = getattr(e, "type", type(v))
        return self.rev.get((t, v), 0)

    def ranking(self, rk):
        """concrete Ranking / list of sets -> list of lists of ints (sorted inside buckets)"""
        return [sorted(self.elem(e) for e in b) for b in rk]

    def rankings(self, rks):
        return [self.ranking(r) for r in rks]


# --------------------------------------------------------------------------- public entry points
def build_dataset(raw, how=0, name="verif"):
    """Build a Dataset from raw rankings (lists of sets of names) through one of the public entry points:
    0 Dataset.from_raw_list, 1 Dataset([Ranking(..)]), 2 Dataset([Ranking.from_string(str(Ranking(..)))]) when the
    names survive the textual form (no delimiter characters), 3 write to a file + Dataset.from_file (same condition,
    and only when some ranking is non-empty on the first line is not required since the fix of the empty-ranking line).
    Falls back to 0 when the entry point does not apply to these names."""
    from corankco.dataset import Dataset
    from corankco.ranking import Ranking
    names = [x for r in raw for b in r for x in b]

    def _odd_int(x):
        # a string that int() reads although it is not a plain digit string ("+7", "1_0", "-0"): outside the domain of
        # the textual format (C18: names not readable as integers)
        if not isinstance(x, str) or x.isdigit():
            return False
        try:
            int(x)
            return True
        except ValueError:
            return False
    textual = not any(_odd_int(x) for x in names) and all((isinstance(x, int) and x >= 0) or (isinstance(x, str) and x and not any(ch in x for ch in "[]{},: \t\n'\"")
                                                     and x == x.strip()) for x in names)
    how = how % 7
    if how == 6:
        # buckets given as sets of Element objects (the documented element type)
        from corankco.element import Element
        ds = Dataset([Ranking([{Element(x) for x in b} for b in r]) for r in raw])
        ds.name = name
        return ds
    if how in (2, 3) and not textual:
        how = 1
    if how == 4:
        # the unified version of the dataset, obtained through Dataset.unified_dataset(): the caller must re-read the
        # rankings (they differ from `raw` when raw is incomplete)
        ds = Dataset.from_raw_list([[set(b) for b in r] for r in raw], name=name).unified_dataset()
        ds.name = name
        return ds
    if how == 5:
        # projection on the whole universe through sub_problem_from_elements (empty rankings are dropped)
        base = Dataset.from_raw_list([[set(b) for b in r] for r in raw], name=name)
        ds = base.sub_problem_from_elements(set(base.universe))
        ds.name = name
        return ds
    if how == 0:
        return Dataset.from_raw_list([[set(b) for b in r] for r in raw], name=name)
    if how == 1:
        ds = Dataset([Ranking([set(b) for b in r]) for r in raw])
        ds.name = name
        return ds
    if how == 2:
        ds = Dataset([Ranking.from_string(str(Ranking([set(b) for b in r]))) for r in raw])
        ds.name = name
        return ds
    d = workdir("files")
    path = os.path.join(d, f"entry_{os.getpid()}_{abs(hash(str(raw))) % 10 ** 9}.txt")
    try:
        if os.path.exists(path):
            os.unlink(path)
        Dataset.from_raw_list([[set(b) for b in r] for r in raw]).write(path)
        ds = Dataset.from_file(path)
        ds.name = name
        return ds
    finally:
        if os.path.exists(path):
            os.unlink(path)


# --------------------------------------------------------------------------- process pool
_INIT_ERR = []


def _pool_init(initfn, aux):
    signal.signal(signal.SIGINT, signal.SIG_IGN)
    # an initializer that raises makes multiprocessing respawn workers for ever: keep the error, fail on first use
    try:
        setup_impl_env()
        if initfn:
            initfn(aux)
    except BaseException as ex:     # noqa: BLE001
        _INIT_ERR.append(repr(ex))


def _guarded(fn, item):
    if _INIT_ERR:
        raise MachineryError("worker initialisation failed: " + _INIT_ERR[0])
    return fn(item)


def _batch_killable(fn, on_timeout, budget, batch):
    """Run fn over the items of a batch in a forked child of this worker that streams its results back; a case that does
    not answer within its budget is killed with the child (compiled loops ignore Python-level alarms), gets the record
    on_timeout(item), and the rest of the batch continues in a new child.  One fork per batch, not per case."""
    import pickle
    import select
    import struct
    if _INIT_ERR:
        raise MachineryError("worker initialisation failed: " + _INIT_ERR[0])
    results = []
    i = 0
    while i < len(batch):
        r, w = os.pipe()
        pid = os.fork()
        if pid == 0:
            code = 0
            try:
                os.close(r)
                with os.fdopen(w, "wb") as f:
                    for item in batch[i:]:
                        data = pickle.dumps(fn(item))
                        f.write(struct.pack("<I", len(data)))
                        f.write(data)
                        f.flush()
            except BaseException:       # noqa: BLE001
                code = 1
            finally:
                os._exit(code)
        os.close(w)
        buf = b""
        killed = False
        with os.fdopen(r, "rb") as f:
            while i < len(batch):
                # first expiry in this worker: the full budget; afterwards the tree is known to hang
                deadline = time.time() + (budget * WATCHDOG_SCALE if not _expired[0] else max(10.0, budget))
                got = None
                while got is None:
                    if len(buf) >= 4:
                        n = struct.unpack("<I", buf[:4])[0]
                        if len(buf) >= 4 + n:
                            got = pickle.loads(buf[4:4 + n])
                            buf = buf[4 + n:]
                            break
                    left = deadline - time.time()
                    if left <= 0 or not select.select([f], [], [], left)[0]:
                        break
                    b = os.read(f.fileno(), 1 << 16)
                    if not b:
                        os.waitpid(pid, 0)
                        raise MachineryError("an isolated batch died before answering every case")
                    buf += b
                if got is None:
                    os.kill(pid, signal.SIGKILL)
                    os.waitpid(pid, 0)
                    _expired[0] += 1
                    results.append(on_timeout(batch[i]))
                    i += 1
                    killed = True
                    break
                results.append(got)
                i += 1
        if not killed:
            os.waitpid(pid, 0)
    return results


def pmap(fn, items, initfn=None, procs=NCPU, chunksize=None, aux=None, killable=None):
    """Map fn over items in a pool of fresh processes (each imports the implementation itself).
    killable = (on_timeout, budget_seconds): see _batch_killable."""
    items = list(items)
    if not items:
        return []
    if killable:
        size = 40
        batches = [items[k:k + size] for k in range(0, len(items), size)]
        out = pmap(functools.partial(_batch_killable, fn, killable[0], killable[1]), batches, initfn=initfn, procs=procs,
                   chunksize=1, aux=aux)
        return [r for b in out for r in b]
    procs = max(1, min(procs, len(items)))
    if chunksize is None:
        chunksize = max(1, min(200, len(items) // (procs * 8) or 1))
    ctx = mp.get_context("fork")
    with ctx.Pool(procs, initializer=_pool_init, initargs=(initfn, aux)) as pool:
        # a worker killed by the implementation (e.g. a segmentation fault in a compiled kernel) would make a plain
        # map() wait for ever: bound the wait and report a machinery failure instead of hanging
        res = pool.map_async(functools.partial(_guarded, fn), items, chunksize=chunksize)
        try:
            return res.get(timeout=float(os.environ.get("VERIF_STAGE_TIMEOUT", "5400")))
        except mp.TimeoutError:
            pool.terminate()
            raise MachineryError("a stage did not finish: a worker process died or hung while executing the library")


class Timeout(Exception):
    pass


_expired = [0]


def isolated(fn, arg, timeout=600, on_timeout=None):
    """Run fn(arg) in a forked child of this worker and return its (picklable) result: process-wide state left behind
    by the implementation (class attributes, module globals) cannot leak from one case into the next one, and a child
    stuck in compiled code (which no Python-level alarm can interrupt) can be killed.  A child that dies is a machinery
    failure; one that does not answer in time as well, unless on_timeout(arg) provides the record to use instead.
    After a first expiry in this worker the budget of the next ones is divided by six (the tree is known to hang)."""
    import pickle
    import select
    r, w = os.pipe()
    pid = os.fork()
    if pid == 0:
        code = 0
        try:
            os.close(r)
            data = pickle.dumps(fn(arg))
            with os.fdopen(w, "wb") as f:
                f.write(data)
        except BaseException:       # noqa: BLE001
            code = 1
        finally:
            os._exit(code)
    os.close(w)
    chunks = []
    deadline = time.time() + timeout * WATCHDOG_SCALE / (6 if _expired[0] else 1)
    with os.fdopen(r, "rb") as f:
        while True:
            left = deadline - time.time()
            if left <= 0 or not select.select([f], [], [], left)[0]:
                os.kill(pid, signal.SIGKILL)
                os.waitpid(pid, 0)
                _expired[0] += 1
                if on_timeout is not None:
                    return on_timeout(arg)
                raise MachineryError("an isolated case did not finish")
            b = os.read(f.fileno(), 1 << 16)
            if not b:
                break
            chunks.append(b)
    _, status = os.waitpid(pid, 0)
    if status != 0 or not chunks:
        raise MachineryError(f"an isolated case died (status {status})")
    return pickle.loads(b"".join(chunks))


WATCHDOG_SCALE = 10.0     # nominal budgets below are multiplied: a loaded machine must never look like a hang


def with_alarm(seconds, fn, *a, **kw):
    def h(signum, frame):
        raise Timeout()
    old = signal.signal(signal.SIGALRM, h)
    signal.setitimer(signal.ITIMER_REAL, seconds * WATCHDOG_SCALE)
    try:
        return fn(*a, **kw)
    finally:
        signal.setitimer(signal.ITIMER_REAL, 0)
        signal.signal(signal.SIGALRM, old)


# --------------------------------------------------------------------------- schemes (integer units)
def scheme_float(B, T, unit):
    return [[b / unit for b in B], [t / unit for t in T]]


def build_scheme(B, T, unit, form=0):
    """A ScoringScheme with penalties q / unit, built in one of the ways a user may build it:
    0 lists of floats; 1 lists of Python ints when every penalty is integral (else floats); 2 the caller keeps the
    lists it gave and overwrites them afterwards (the scheme must not change); 3 as  (k * s) / k-th  of the scheme,
    i.e. through the library's own __mul__ / __rmul__ with exact dyadic factors (4 * s, then * 0.25); 4 as a quarter of
    a scheme four times as large that has ALREADY SERVED (cost table, score, nickname, description) before it is
    multiplied."""
    from corankco.scoringscheme import ScoringScheme
    form = form % 5
    if form == 4:
        big = ScoringScheme([[4 * x for x in v] for v in scheme_float(B, T, unit)])
        try:
            from corankco.algorithms.pairwisebasedalgorithm import PairwiseBasedAlgorithm
            from corankco.dataset import Dataset
            from corankco.kemeny_score_computation import KemenyComputingFactory
            from corankco.ranking import Ranking
            d0 = Dataset.from_raw_list([[{1}, {2}], [{2, 3}]])
            PairwiseBasedAlgorithm.pairwise_cost_matrix(d0.get_positions(), big)
            KemenyComputingFactory(big).get_kemeny_score(Ranking([{1}, {2}, {3}]), d0)
            big.get_nickname()
            big.description()
            str(big)
        except Exception:
            pass
        return big * 0.25 if (B[1] + T[0]) % 2 else 0.25 * big
    vec = scheme_float(B, T, unit)
    if form == 1 and all(float(x).is_integer() for v in vec for x in v):
        return ScoringScheme([[int(x) for x in v] for v in vec])
    if form == 2:
        mine = [list(vec[0]), list(vec[1])]
        s = ScoringScheme(mine)
        for v in mine:
            for k in range(len(v)):
                v[k] = 9.0
        mine.append([1.0])
        return s
    if form == 3:
        s = ScoringScheme(vec)
        return 0.25 * (s * 4)
    return ScoringScheme(vec)


def to_units(x, unit, tol=1e-6):
    """float result -> (integer in units, exact?)  exact = within tol (absolute, in natural units; 0 = bit-exact)"""
    if x is None:
        return 0, False
    try:
        v = float(x) * unit
    except (TypeError, ValueError):
        return 0, False
    if v != v or v in (float("inf"), float("-inf")):
        return 0, False
    r = int(round(v))
    if abs(r) >= 2 ** 31:
        return 0, False
    return r, (abs(v - r) <= tol * unit)


# lexicographic schemes: the library gets  2^34 * S1 + S2  (two magnitudes ten orders apart, or penalties that differ
# by 6e-11 relatively); TLC gets  1024 * S1 + S2 . Every ORDINAL clause (which of two costs / scores is smaller or
# equal) is the same for both as long as the S2 part of every compared sum stays below 1024, which holds for the
# small datasets these schemes are used with (at most 6 elements and 8 rankings: 15 * 8 * 2 < 1024).
LEX_H_LIB = 2 ** 34
LEX_H_TLC = 1024
LEX = [(([0, 1, 1, 0, 1, 1], [1, 1, 0, 1, 1, 0]), ([0, 0, 0, 0, 1, 0], [0, 0, 0, 0, 0, 0])),
       (([0, 1, 0, 0, 0, 0], [0, 0, 0, 0, 0, 0]), ([0, 0, 1, 0, 1, 1], [1, 1, 0, 1, 1, 0])),
       (([0, 1, 1, 0, 0, 0], [1, 1, 0, 0, 0, 0]), ([0, 1, 0, 0, 0, 0], [0, 0, 0, 1, 1, 1])),
       (([0, 1, 1, 0, 1, 0], [1, 1, 0, 1, 1, 0]), ([0, 0, 1, 0, 0, 0], [0, 0, 0, 0, 0, 1])),
       (([0, 1, 0, 0, 0, 0], [1, 1, 0, 0, 0, 0]), ([0, 0, 2, 1, 1, 0], [1, 1, 0, 0, 0, 1])),
       # huge penalties only for pairs with a missing element: the same offset on both orders of a pair
       (([0, 0, 0, 0, 1, 0], [0, 0, 0, 1, 1, 0]), ([0, 1, 1, 0, 0, 0], [1, 1, 0, 0, 0, 0])),
       (([0, 0, 0, 1, 1, 1], [0, 0, 0, 1, 1, 1]), ([0, 2, 1, 0, 1, 0], [1, 1, 0, 0, 0, 0]))]


def lex_vectors(k):
    """-> (penalties for the library, [B, T] for TLC) of the k-th lexicographic scheme"""
    (B1, T1), (B2, T2) = LEX[k % len(LEX)]
    lib = [[float(LEX_H_LIB * a + b) for a, b in zip(B1, B2)], [float(LEX_H_LIB * a + b) for a, b in zip(T1, T2)]]
    tlc = [[LEX_H_TLC * a + b for a, b in zip(B1, B2)], [LEX_H_TLC * a + b for a, b in zip(T1, T2)]]
    return lib, tlc


def presets(unit=4):
    u, h = unit, unit // 2
    out = []
    for p in (u, h):
        out.append(("unifying", [0, u, p, 0, u, p], [p, p, 0, p, p, 0]))
        out.append(("induced", [0, u, p, 0, 0, 0], [p, p, 0, 0, 0, 0]))
        out.append(("pseudo", [0, u, p, 0, u, 0], [p, p, 0, p, p, 0]))
    out.append(("extended", [0, u, 0, 0, 0, 0], [u, u, 0, u, u, u]))
    return out


def valid_scheme(B, T):
    return (len(B) == 6 and len(T) == 6 and all(x >= 0 for x in B + T) and B[0] == 0 and B[1] > 0
            and B[3] <= B[4] and T[0] == T[1] and T[2] == 0 and T[3] == T[4])


def grid_schemes(values=(0, 1, 2)):
    """All valid schemes with entries in `values` (2 916 for {0,1,2}). Enumeration only: validity is
    re-checked by TLC wherever it matters."""
    import itertools
    out = []
    for B in itertools.product(values, repeat=6):
        if B[0] != 0 or B[1] == 0 or B[3] > B[4]:
            continue
        for t0, t3, t5 in itertools.product(values, repeat=3):
            out.append((list(B), [t0, t0, 0, t3, t3, t5]))
    return out


# --------------------------------------------------------------------------- findings / evidence
def load_known_findings():
    p = os.path.join(VERIF, "known_findings.json")
    if not os.path.exists(p):
        return {"findings": [], "fixed": []}
    with open(p) as f:
        return json.load(f)


def write_replay(pid, case_id, payload):
    d = workdir("replays" + os.environ.get("VERIF_REPLAY_SUFFIX", ""), pid)
    p = os.path.join(d, f"{case_id}.json")
    with open(p, "w") as f:
        json.dump(payload, f, indent=1, sort_keys=True)
    return p


def write_evidence(pid, tier, coverage, wall, violations, assumptions, level="model_checking"):
    os.makedirs(EVID, exist_ok=True)
    ev = {
        "property_id": pid,
        "tier": tier,
        "seed": seed(),
        "level": level,
        "coverage": coverage,
        "assumptions": assumptions,
        "wall_s": round(wall, 2),
        "violations": violations,
    }
    tmp = os.path.join(EVID, f".{pid}.json.tmp")
    with open(tmp, "w") as f:
        json.dump(ev, f, indent=1, sort_keys=True)
    os.replace(tmp, os.path.join(EVID, f"{pid}.json"))
    return ev
