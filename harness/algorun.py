"""
Run one algorithm configuration of the library on one (dataset, scheme) and record everything the
properties C03-C10, C12-C14 talk about, projected to abstract values.  No expected value is computed here.

case   : {"D": abstract dataset, "naming": kind, "sch": [B, T, unit], "cfg": name, "flag": 0|1,
          "env": "nocplex"|"standin", "kseed": int}
record : case + {
   out      "consensus" | "refused:<Exc>" (documented refusal) | "error:<Exc>" | "timeout"
   K        consensus rankings (arrays of arrays of element numbers; 0 = an element that is not an element
            of the dataset with the dataset's type)
   dup      1 when some Ranking of the consensus could not even be projected injectively
   rep      [value in units, exact?, status]  -- cons.kemeny_score ; status "ok" | "absent" | "exc:<Exc>"
   rep0     same for the raw feature before any on-demand computation ("absent" when -1/None/missing)
   opt      necessarily_optimal flag (0/1)
   starts   consensus of each starting algorithm as BioConsert received it (wrappers), [] otherwise
   auxcalls number of times the auxiliary algorithm of ParCons was called
   wpart    ParCons' reported weak partitioning ([] if none)
   pred     "true" | "false" | "exc:<Exc>"  -- is_scoring_scheme_relevant_when_incomplete_rankings
   complete 1 when the library says the dataset is complete
   cop      Copeland features: {"s2": [2*score per element 1..n], "ved": [[v,e,d] per element]} or {}
   desc     1 when description() returned a string
}
"""
import random

from . import core

_impl = {}

REFUSALS = ("ScoringSchemeNotHandledException", "InompleteRankingsIncompatibleWithScoringSchemeException",
            "IncompatibleArgumentsException")


def init(aux=None):
    core.import_impl()
    import corankco.algorithms.exact.exactalgorithmcplex  # noqa: F401  (before any stand-in)
    from corankco.dataset import Dataset
    from corankco.scoringscheme import ScoringScheme
    from corankco.consensus import ConsensusFeature
    from corankco.algorithms.rank_aggregation_algorithm import RankAggAlgorithm
    _impl.update(Dataset=Dataset, SS=ScoringScheme, CF=ConsensusFeature, RAA=RankAggAlgorithm, aux=aux)


def Recorder(inner, log):
    """An object of a dynamic SUBCLASS of the wrapped algorithm's class sharing its state: it records every consensus
    it returns (first ranking).  isinstance checks, attributes and names behave as for the wrapped algorithm."""
    base = type(inner)

    def compute_consensus_rankings(self, dataset, scoring_scheme, return_at_most_one_ranking=True, bench_mode=False):
        c = base.compute_consensus_rankings(self, dataset, scoring_scheme, return_at_most_one_ranking, bench_mode)
        log.append(c.consensus_rankings[0])
        return c
    cls = type("Recorded" + base.__name__, (base,), {"compute_consensus_rankings": compute_consensus_rankings})
    obj = cls.__new__(cls)
    obj.__dict__.update(inner.__dict__)
    return obj


def build(cfg, log_starts, log_aux, kseed):
    """configuration name -> algorithm instance"""
    from corankco.algorithms.bioconsert.bioconsert import BioConsert
    from corankco.algorithms.bioconsert.bioco import BioCo
    from corankco.algorithms.borda.borda import BordaCount
    from corankco.algorithms.copeland.copeland import CopelandMethod
    from corankco.algorithms.kwiksort.kwiksortrandom import KwikSortRandom
    from corankco.algorithms.pickaperm.pickaperm import PickAPerm
    from corankco.algorithms.parcons.parcons import ParCons
    from corankco.algorithms.exact.exactalgorithm import ExactAlgorithm
    from corankco.algorithms.exact.exactalgorithmpulp import ExactAlgorithmPulp
    from corankco.algorithms.exact.exactalgorithmcplex import ExactAlgorithmCplex
    from corankco.algorithms.exact.exactalgorithmcplexforpaperoptim1 import ExactAlgorithmCplexForPaperOptim1

    def rs(a):
        return Recorder(a, log_starts)

    def ra(a):
        return Recorder(a, log_aux)

    table = {
        "HandBuilt": lambda: BordaCount(),          # placeholder: the consensus is built by hand in run_case
        "Borda": lambda: BordaCount(),
        "BordaBid": lambda: BordaCount(use_bucket_id=True),
        "Copeland": lambda: CopelandMethod(),
        "PickAPerm": lambda: PickAPerm(),
        "KwikSort": lambda: KwikSortRandom(),
        "BioConsert": lambda: BioConsert(),
        "BioCo": lambda: BioCo(),
        "Bio[]": lambda: BioConsert(starting_algorithms=[]),          # explicitly no starting algorithm
        "Bio()": lambda: BioConsert(starting_algorithms=()),
        "ParCons(b0,Bio[])": lambda: ParCons(auxiliary_algorithm=ra(BioConsert([])), bound_for_exact=0),
        "Bio[Borda]": lambda: BioConsert([rs(BordaCount())]),
        "Bio[Copeland,KwikSort]": lambda: BioConsert([rs(CopelandMethod()), rs(KwikSortRandom())]),
        "Bio[PickAPerm]": lambda: BioConsert([rs(PickAPerm())]),
        "Bio[BioCo]": lambda: BioConsert([rs(BioCo())]),                     # a local search started from a local search
        "Bio{Copeland}": lambda: BioConsert({rs(CopelandMethod())}),        # the starting algorithms given as a set
        "BioValues[Borda]": lambda: BioConsert({"first": rs(BordaCount())}.values()),      # ... as a dictionary view
        "Bio[Borda,BordaBid]": lambda: BioConsert([rs(BordaCount()), rs(BordaCount(use_bucket_id=True))]),
        "Bio[PickAPerm,Copeland]": lambda: BioConsert([rs(PickAPerm()), rs(CopelandMethod())]),
        "Bio[Borda,Copeland,KwikSort]": lambda: BioConsert([rs(BordaCount()), rs(CopelandMethod()),
                                                             rs(KwikSortRandom())]),
        "ParCons": lambda: ParCons(),
        "ParCons(b0,BioConsert)": lambda: ParCons(auxiliary_algorithm=ra(BioConsert()), bound_for_exact=0),
        "ParCons(b1,KwikSort)": lambda: ParCons(auxiliary_algorithm=ra(KwikSortRandom()), bound_for_exact=1),
        "ParCons(b2,Borda)": lambda: ParCons(auxiliary_algorithm=ra(BordaCount()), bound_for_exact=2),
        "ParCons(b3,BioConsert)": lambda: ParCons(auxiliary_algorithm=ra(BioConsert()), bound_for_exact=3),
        "ParCons(b0,BioCo)": lambda: ParCons(auxiliary_algorithm=ra(BioCo()), bound_for_exact=0),
        "ParCons(b0,ParCons(b0,Borda))": lambda: ParCons(
            auxiliary_algorithm=ra(ParCons(auxiliary_algorithm=BordaCount(), bound_for_exact=0)), bound_for_exact=0),
        "ParCons(b80,rec)": lambda: ParCons(auxiliary_algorithm=ra(BioConsert())),
        "ExactPulp": lambda: ExactAlgorithmPulp(),
        "Exact(opt)": lambda: ExactAlgorithm(optimize=True),
        "Exact(noopt)": lambda: ExactAlgorithm(optimize=False),
        "ExactCplex(opt)": lambda: ExactAlgorithmCplex(optimize=True),
        "ExactCplex(noopt)": lambda: ExactAlgorithmCplex(optimize=False),
        "ExactOptim1": lambda: ExactAlgorithmCplexForPaperOptim1(),
    }
    alg = table[cfg]()
    if kseed % 3 == 2:
        # the same configuration obtained through the library's factory get_algorithm(Algorithm.X, parameters)
        try:
            from corankco.algorithms.algorithm_choice import get_algorithm, Algorithm
            kind = {BioConsert: Algorithm.BIOCONSERT, ParCons: Algorithm.PARCONS, ExactAlgorithm: Algorithm.EXACT,
                    KwikSortRandom: Algorithm.KWIKSORTRANDOM}.get(type(alg))
            if kind is not None:
                params = {}
                if type(alg) is BioConsert:
                    params = {"starting_algorithms": list(alg._starting_algorithms)}
                elif type(alg) is ParCons:
                    params = {"auxiliary_algorithm": alg._auxiliary_alg, "bound_for_exact": alg._bound_for_exact}
                elif type(alg) is ExactAlgorithm:
                    params = {"optimize": cfg == "Exact(opt)"}
                got = get_algorithm(kind, params)
                if type(got) is type(alg):
                    alg = got
        except Exception:
            pass
    return alg


NEEDS_CPLEX = ("ExactCplex(opt)", "ExactCplex(noopt)", "ExactOptim1")
ALL_CONFIGS = ["Borda", "BordaBid", "Copeland", "PickAPerm", "KwikSort", "BioConsert", "Bio[]", "Bio()", "ParCons(b0,Bio[])", "BioCo", "Bio[Borda]",
               "Bio[Copeland,KwikSort]", "Bio[PickAPerm]", "Bio[PickAPerm,Copeland]", "Bio[Borda,BordaBid]",
               "Bio[Borda,Copeland,KwikSort]", "ParCons", "ParCons(b0,BioConsert)", "ParCons(b1,KwikSort)",
               "ParCons(b2,Borda)", "ParCons(b3,BioConsert)", "ParCons(b0,BioCo)", "ParCons(b0,ParCons(b0,Borda))", "ParCons(b80,rec)",
               "ExactPulp", "Exact(opt)", "Exact(noopt)", "ExactCplex(opt)", "ExactCplex(noopt)", "ExactOptim1"]


STARTERS = {"BioCo": ["Borda"], "Bio[Borda]": ["Borda"], "Bio[Copeland,KwikSort]": ["Copeland"],
            "Bio[PickAPerm]": ["PickAPerm"], "Bio[PickAPerm,Copeland]": ["PickAPerm", "Copeland"],
            "Bio[Borda,BordaBid]": ["Borda", "BordaBid"], "Bio[Borda,Copeland,KwikSort]": ["Borda", "Copeland"],
            "Bio[BioCo]": ["BioCo"], "Bio{Copeland}": ["Copeland"], "BioValues[Borda]": ["Borda"]}


def _independent_starts(cfg, ds, ss, am):
    """consensus of every deterministic CONFIGURED starting algorithm, computed by a fresh instance outside the run
    (the run itself may have dropped or replaced a starter)"""
    out = []
    for name in STARTERS.get(cfg, []):
        try:
            c = build(name, [], [], 0).compute_consensus_rankings(ds, ss, True)
            out.append(am.ranking(c.consensus_rankings[0]))
        except Exception:
            pass
    return out


def _score_obs(getter, unit):
    try:
        v = getter()
    except Exception as ex:
        return [0, 0, "exc:" + type(ex).__name__]
    if v is None:
        return [0, 0, "absent"]
    try:
        fv = float(v)
    except Exception:
        return [0, 0, "absent"]
    if fv != fv:
        return [0, 0, "absent"]
    if fv < -1e-6:          # the property's 1e-6 tolerance also applies around zero (float dust like -4e-16)
        return [0, 0, "negative"]
    u, exact = core.to_units(fv, unit)
    return [u, 1 if exact else 0, "ok"]


def _blank(case):
    rec = dict(case)
    rec.update(out="", K=[], dup=0, starts2=[], rep=[0, 0, "absent"], rep0=[0, 0, "absent"], opt=0, starts=[], auxcalls=0,
               wpart=[], pred="", complete=0, cop={"s2": [], "ved": []}, desc=0, ids=[])
    # optional second limb: the scheme given to the library is H * (B, T) + (B2, T2), far beyond TLC's 32-bit integers;
    # TLC evaluates the two limbs separately (the score is linear in the penalties) and compares pairs
    H = int(case.get("H", 0))
    B2, T2 = case.get("sch2", [[0] * 6, [0] * 6])
    rec.update(H=H, sch2=[list(B2), list(T2)], rep2=[0, 0, "absent"])
    return rec


def _timed_out(case):
    rec = _blank(case)
    rec["out"] = "timeout"
    return rec


def run_case(case):
    return _run_case(case)


# the local search runs in compiled loops that no Python-level alarm can interrupt: the cases run in forked children that
# can be killed (a run that does not come back is recorded as "timeout": not a verdict)
KILLABLE = (_timed_out, 12)


def _run_case(case):
    from . import standin_cplex
    Dataset, SS, CF = _impl["Dataset"], _impl["SS"], _impl["CF"]
    rec = _blank(case)
    B, T, unit = case["sch"]
    H = rec["H"]
    B2, T2 = rec["sch2"]
    am = core.Absmap(case["naming"], case["D"])
    if case.get("env") == "standin":
        standin_cplex.install()
    elif case.get("env") == "brokencplex":
        standin_cplex.install_broken()
    else:
        standin_cplex.uninstall()
    log_starts, log_aux = [], []
    try:
        ds = core.build_dataset(am.raw_dataset(case["D"]), case.get("entry", 0))
        if case.get("entry", 0) % 6 in (4, 5):
            rec["D"] = [am.ranking(r) for r in ds.rankings]            # derived dataset: observed rankings
            if any(0 in b for r in rec["D"] for b in r):
                raise ValueError("projection")
        uexp = case.get("uexp")
        if uexp is not None:
            # penalties q * 2**(-uexp): exact floats, arbitrarily small or large; TLC works on the integers q
            unit = 2.0 ** uexp
        if case.get("lex") is not None:
            lib, tlc = core.lex_vectors(case["lex"])
            ss = SS(lib)
            rec["sch"] = [tlc[0], tlc[1], 1]
        elif H:
            ss = SS([[float(H * b + b2) for b, b2 in zip(B, B2)], [float(H * t + t2) for t, t2 in zip(T, T2)]])
        elif uexp is not None:
            ss = SS(core.scheme_float(B, T, unit))
        else:
            ss = core.build_scheme(B, T, unit, case.get("schemeform", 0))
        if case.get("mulk"):
            ss = ss * (case["mulk"][0] / case["mulk"][1]) if case["kseed"] % 2 else (case["mulk"][0] / case["mulk"][1]) * ss
        rec["complete"] = 1 if ds.is_complete else 0
    except Exception as ex:
        rec["out"] = "error:construct:" + type(ex).__name__
        return rec
    random.seed(case.get("kseed", 0))
    try:
        alg = build(case["cfg"], log_starts, log_aux, case.get("kseed", 0))
    except Exception as ex:
        rec["out"] = "error:build:" + type(ex).__name__
        return rec
    reuse = case.get("reuse")
    if not reuse or reuse["kind"] == "then_other":
        try:
            p = alg.is_scoring_scheme_relevant_when_incomplete_rankings(ss)
            rec["pred"] = "true" if p is True else "false" if p is False else "exc:NotBool"
        except Exception as ex:
            rec["pred"] = "exc:" + type(ex).__name__
    if reuse and reuse["kind"] != "then_other":
        # history before the measured run: the SAME algorithm object (and, for "mutate", the SAME dataset object) is
        # used first, its consensus score is read, then the dataset is modified in place / another dataset is given
        try:
            if reuse["kind"] == "mutate":
                try:
                    # the earlier call asks for the OTHER value of return_at_most_one_ranking in half of the cases
                    c0 = alg.compute_consensus_rankings(ds, ss, bool(case["flag"]) != (case.get("kseed", 0) % 2 == 1))
                    _ = c0.kemeny_score
                    _ = c0.description()
                except Exception:
                    pass
                ds.unified_rankings()
                ds.get_positions()
                for op in reuse["ops"]:
                    if op["op"] == "remove_elements":
                        ds.remove_elements({am.value(x) for x in op["S"]})
                    elif op["op"] == "remove_rate":
                        ds.remove_elements_rate_presence_lower_than(op["p"] / op["q"])
                    else:
                        ds.remove_empty_rankings()
                rec["D"] = [am.ranking(r) for r in ds.rankings]
                rec["complete"] = 1 if ds.is_complete else 0
                if any(0 in b for r in rec["D"] for b in r):
                    raise ValueError("projection")
            elif reuse["kind"] == "flagflip":
                # the same object, dataset and scheme, first asked with the OTHER value of return_at_most_one_ranking
                try:
                    c0 = alg.compute_consensus_rankings(ds, ss, not bool(case["flag"]))
                    _ = c0.kemeny_score
                except Exception:
                    pass
            elif reuse["kind"] == "prealg":
                # another algorithm (e.g. the exact one) runs first on the same dataset and scheme objects
                try:
                    c0 = build(reuse["cfg0"], [], [], 0).compute_consensus_rankings(ds, ss, True)
                    _ = c0.kemeny_score
                except Exception:
                    pass
            elif reuse["kind"] == "scheme":
                B0, T0, u0 = reuse["sch0"]
                ss0 = SS(core.scheme_float(B0, T0, u0))
                try:
                    alg.is_scoring_scheme_relevant_when_incomplete_rankings(ss0)
                    c0 = alg.compute_consensus_rankings(ds, ss0, bool(case["flag"]))
                    _ = c0.kemeny_score
                    _ = c0.description()
                except Exception:
                    pass
            else:
                B0, T0, u0 = reuse["sch0"]
                ds = None              # the measured dataset is rebuilt AFTER the first one has died (see below)
                ds0 = Dataset.from_raw_list(core.Absmap(case["naming"], reuse["D0"]).raw_dataset(reuse["D0"]))
                ss0 = SS(core.scheme_float(B0, T0, u0))
                try:
                    alg.is_scoring_scheme_relevant_when_incomplete_rankings(ss0)
                except Exception:
                    pass
                try:
                    c0 = alg.compute_consensus_rankings(ds0, ss0, bool(case["flag"]))
                    _ = c0.kemeny_score
                    _ = c0.description()
                except Exception:
                    pass
                # the first dataset dies before the measured one is (re)built: object identities may be recycled
                c0 = None
                del ds0
                ds = Dataset.from_raw_list(am.raw_dataset(case["D"]))
        except Exception as ex:
            rec["out"] = "setup-failed"
            return rec
        del log_starts[:]
        del log_aux[:]
    try:
        p = alg.is_scoring_scheme_relevant_when_incomplete_rankings(ss)
        rec["pred"] = "true" if p is True else "false" if p is False else "exc:NotBool"
    except Exception as ex:
        rec["pred"] = "exc:" + type(ex).__name__
    if case.get("kseed", 0) % 4 == 0:
        # the caller scribbles on what the accessors handed out (they are copies): the dataset must not change
        try:
            ds.universe.clear()
            for r in ds.rankings:
                r.domain.clear()
            ds.get_positions().fill(7)
        except Exception:
            pass
    try:
        # the numbering of the elements by the dataset (public mapping): per abstract element 1..max, -1 when absent
        inv = {am.elem(e): int(i) for e, i in ds.mapping_elem_id.items()}
        top = max((x for r in rec["D"] for b in r for x in b), default=0)
        rec["ids"] = [inv.get(x, -1) for x in range(1, top + 1)]
    except Exception:
        rec["ids"] = []
    try:
        if case["cfg"] == "HandBuilt":
            from corankco.consensus import Consensus
            from corankco.ranking import Ranking
            cons = Consensus([Ranking(am.norm_ranking(c)) for c in case["cands"]], dataset=ds, scoring_scheme=ss)
        else:
            # bench = 1: the documented bench_mode parameter is on (less information may be attached to the consensus, the
            # consensus itself and the refusals are the same)
            cons = core.with_alarm(case.get("timeout", 60), alg.compute_consensus_rankings, ds, ss,
                                   bool(case["flag"]), *([True] if case.get("bench") == 1 else []))
    except core.Timeout:
        rec["out"] = "timeout"
        return rec
    except Exception as ex:
        name = type(ex).__name__
        rec["out"] = ("refused:" if name in REFUSALS else "error:") + name
        rec["starts"] = [am.ranking(r) for r in log_starts]
        return rec
    finally:
        if case.get("env") in ("standin", "brokencplex"):
            standin_cplex.uninstall()
    rec["out"] = "consensus"
    if reuse and reuse["kind"] == "then_other":
        try:
            B0, T0, u0 = reuse["sch0"]
            ds0 = Dataset.from_raw_list(core.Absmap(case["naming"], reuse["D0"]).raw_dataset(reuse["D0"]))
            c1 = alg.compute_consensus_rankings(ds0, SS(core.scheme_float(B0, T0, u0)), bool(case["flag"]))
            _ = c1.kemeny_score
        except Exception:
            pass
    rec["starts2"] = _independent_starts(case["cfg"], ds, ss, am)
    try:
        rec["K"] = [am.ranking(r) for r in cons.consensus_rankings]
    except Exception as ex:
        rec["out"] = "error:project:" + type(ex).__name__
        return rec
    feats = cons.features
    rec["rep0"] = [0, 0, "absent"] if H else _score_obs(
        lambda: (None if feats.get(CF.KEMENY_SCORE, None) in (None, -1, -1.0) else feats.get(CF.KEMENY_SCORE)), unit)
    if H:
        # change of representation only: value = q * H + r with 0 <= r < H, both limbs logged
        try:
            v = float(cons.kemeny_score)
            if v == int(v) and 0 <= v < 2 ** 53:
                q, r = divmod(int(v), H)
                rec["rep"] = [q, 1, "ok"] if q < 2 ** 31 else [0, 0, "absent"]
                rec["rep2"] = [r, 1, "ok"]
            else:
                rec["rep"] = [0, 0, "ok"]
        except Exception as ex:
            rec["rep"] = [0, 0, "exc:" + type(ex).__name__]
    else:
        rec["rep"] = _score_obs(lambda: cons.kemeny_score, unit)
    try:
        rec["desc"] = 1 if isinstance(cons.description(), str) else 0
    except Exception:
        rec["desc"] = 0
    try:
        rec["opt"] = 1 if cons.necessarily_optimal else 0
    except Exception:
        rec["opt"] = 0
    rec["starts"] = [am.ranking(r) for r in log_starts]
    rec["auxcalls"] = len(log_aux)
    wp = feats.get(CF.WEAK_PARTITIONING)
    if wp:
        rec["wpart"] = [sorted(am.elem(e) for e in g) for g in wp]
    cs = feats.get(CF.COPELAND_SCORES)
    cv = feats.get(CF.COPELAND_VICTORIES)
    if cs is not None and cv is not None:
        n = max(x for r in case["D"] for b in r for x in b)
        s2 = [-1] * n
        ved = [[-1, -1, -1] for _ in range(n)]
        ok = True
        for e, v in cs.items():
            k = am.elem(e)
            if k < 1 or k > n or float(v) * 2 != int(float(v) * 2):
                ok = False
                continue
            s2[k - 1] = int(float(v) * 2)
        for e, v in cv.items():
            k = am.elem(e)
            if k < 1 or k > n or len(v) != 3 or any(float(x) != int(x) for x in v):
                ok = False
                continue
            ved[k - 1] = [int(x) for x in v]
        rec["cop"] = {"s2": s2, "ved": ved, "ok": 1 if ok else 0}
    return rec
