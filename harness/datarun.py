"""
Observation of Ranking / Dataset objects (C15, C16, C17, C18 files): every accessor is read and projected to
abstract values.  No expected value is computed here -- TLC (spec/Trace_Dataset.tla) decides whether the
views agree with the buckets.
"""
import os

from . import core

_impl = {}


def init(aux=None):
    core.import_impl()
    from corankco.dataset import Dataset, EmptyDatasetException
    from corankco.ranking import Ranking
    from corankco.element import Element
    _impl.update(Dataset=Dataset, Ranking=Ranking, Element=Element, Empty=EmptyDatasetException, aux=aux)


class NameMap:
    """name-based projection (type-agnostic: the type of the elements is observed separately)"""

    def __init__(self, kind, ne):
        self.kind = kind
        self.names = core.naming(kind, max(ne, 20))
        self.ne = ne
        self.rev = {str(v): k for k, v in self.names.items() if k <= ne}

    def raw_ranking(self, r):
        return [{self.names[x] for x in b} for b in r]

    def raw_dataset(self, d):
        return [self.raw_ranking(r) for r in d]

    def elem(self, e):
        return self.rev.get(str(getattr(e, "value", e)), 0)

    def keys_for(self, x):
        """candidate Element keys for abstract element x (its name as str, and as int when digit-like)"""
        E = _impl["Element"]
        nm = self.names[x]
        out = [E(str(nm))]
        if isinstance(nm, int):
            out.append(E(nm))
        elif str(nm).isdigit():
            out.append(E(int(nm)))
        return out

    def lookup(self, dct, x, default):
        for k in self.keys_for(x):
            if k in dct:
                return dct[k]
        return default


def observe_ranking(r, nm):
    pos = []
    for x in range(1, nm.ne + 1):
        pos.append(int(nm.lookup(r.positions, x, 0)))
    foreign_pos = [0 for e in r.positions if nm.elem(e) == 0]
    return {"rk": [sorted(nm.elem(e) for e in b) for b in r.buckets],
            "pos": pos,
            "dom": sorted([nm.elem(e) for e in r.domain] + foreign_pos),
            "nbe": int(r.nb_elements), "len": int(len(r))}


def _types(elems):
    ts = {e.type for e in elems}
    if not ts:
        return "none"
    if ts == {int}:
        return "int"
    if ts == {str}:
        return "str"
    return "mixed"


def observe_dataset(ds, nm):
    rks = [observe_ranking(r, nm) for r in ds.rankings]
    elems = [e for r in ds.rankings for b in r.buckets for e in b]
    allelems = elems + list(ds.mapping_elem_id.keys()) + list(ds.mapping_id_elem.values()) + list(ds.universe)
    o = {"rks": rks,
         "uni": sorted(nm.elem(e) for e in ds.universe),
         "n": int(ds.nb_elements),
         "nbr": int(ds.nb_rankings),
         "e2i": [int(nm.lookup(ds.mapping_elem_id, x, -1)) for x in range(1, nm.ne + 1)],
         "extra": sum(1 for e in ds.mapping_elem_id if nm.elem(e) == 0),
         "i2e": sorted([int(i), nm.elem(e)] for i, e in ds.mapping_id_elem.items()),
         "types": _types(allelems),
         "intlike": 1 if all(isinstance(e.value, int) or str(e.value).isdigit() for e in elems) else 0,
         "complete": 1 if ds.is_complete else 0,
         "noties": 1 if ds.without_ties else 0,
         "P": [], "Bk": [], "matok": 0}
    try:
        P = ds.get_positions()
        Bk = ds.get_bucket_ids()
        if P.shape == Bk.shape == (ds.nb_elements, ds.nb_rankings):
            o["P"] = [[int(v) for v in row] for row in P]
            o["Bk"] = [[int(v) for v in row] for row in Bk]
            o["matok"] = 1
    except Exception:
        pass
    return o


EMPTY_OBS = {"rks": [], "uni": [], "n": 0, "nbr": 0, "e2i": [], "extra": 0, "i2e": [], "types": "none",
             "intlike": 1, "complete": 0, "noties": 0, "P": [], "Bk": [], "matok": 0}


def _rk_of(ds, nm):
    return [[sorted(nm.elem(e) for e in b) for b in r.buckets] for r in ds.rankings]


def _derived(ds, nm, subsets):
    out = {"unirks": [], "unids": {"out": "", "obs": EMPTY_OBS}, "subs": []}
    try:
        out["unirks"] = [observe_ranking(r, nm) for r in ds.unified_rankings()]
    except Exception as ex:
        out["unirks"] = [{"rk": [[0]], "pos": [0] * nm.ne, "dom": [], "nbe": -1, "len": -1}]
    try:
        out["unids"] = {"out": "ok", "obs": observe_dataset(ds.unified_dataset(), nm)}
    except Exception as ex:
        out["unids"] = {"out": "error:" + type(ex).__name__, "obs": EMPTY_OBS}
    uni = {nm.elem(e): e for e in ds.universe}
    for k, S in enumerate(subsets):
        keep = {uni[x] for x in S if x in uni}
        try:
            if k % 2 == 0:
                sub = ds.sub_problem_from_elements(keep)
            else:
                sub = ds.sub_problem_from_ids({ds.mapping_elem_id[e] for e in keep})
            out["subs"].append({"S": sorted(S), "out": "ok", "obs": observe_dataset(sub, nm)})
        except Exception as ex:
            out["subs"].append({"S": sorted(S), "out": "error:" + type(ex).__name__, "obs": EMPTY_OBS})
    return out


def _subsets(universe, rng_key):
    u = sorted(universe)
    if not u:
        return []
    out = [[u[rng_key % len(u)]]]
    if len(u) >= 2:
        out.append(u[:-1] if rng_key % 2 else u[1:])
    out.append(u)
    if len(u) >= 9:
        # small sets of a wide universe (two to four elements, early and late ones), each through both entry points
        n = len(u)
        for j in range(4):
            a = (rng_key * 7 + j * 3) % n
            S = sorted({u[a], u[(a + 5 + j) % n], u[n - 1 - (j % 2)]} | ({u[(a + 8) % n]} if j % 2 else set()))
            out.append(S)
            out.append(S)
    return out


def run_session(case):
    """case: {"D", "naming", "ops": [{"op": .., "S"| "p","q"}], "ne", "log_construct"} -> {"steps": [records]}"""
    Dataset = _impl["Dataset"]
    ne = case["ne"]
    nm = NameMap(case["naming"], ne)
    steps = []

    def step(op, pre, out, ds, extra):
        rec = {"kind": "step", "op": op, "pre": pre, "out": out, "ne": ne, "alive": 1 if ds is not None else 0,
               "naming": case["naming"], "S": [], "p": 0, "q": 1}
        rec.update(extra)
        # Ranking objects the caller obtained from the dataset BEFORE the call (dataset[i], iteration): they are values
        # of their own and must keep agreeing with their own buckets whatever happens to the dataset afterwards
        try:
            rec["held"] = [observe_ranking(r, nm) for r in held]
        except Exception as ex:
            rec["held"] = [{"rk": [[0]], "pos": [0] * nm.ne, "dom": [], "nbe": -1, "len": -1}]
        if ds is not None:
            try:
                rec["obs"] = observe_dataset(ds, nm)
            except Exception as ex:
                rec["obs"] = dict(EMPTY_OBS)
                rec["obs"]["types"] = "observe-failed:" + type(ex).__name__
            cur = [r["rk"] for r in rec["obs"]["rks"]]
            rec.update(_derived(ds, nm, _subsets({x for r in cur for b in r for x in b}, len(steps) + len(cur))))
        else:
            rec["obs"] = EMPTY_OBS
            rec.update({"unirks": [], "unids": {"out": "", "obs": EMPTY_OBS}, "subs": []})
        return rec

    given = None
    held = []
    try:
        entry = case.get("entry", 0) % 7
        if entry == 1:
            # the constructor receives a list that the caller keeps (and later reuses, see the scribble step)
            given = [_impl["Ranking"]([set(b) for b in r]) for r in nm.raw_dataset(case["D"])]
            ds = Dataset(given)
            ds.name = "session"
        else:
            ds = core.build_dataset(nm.raw_dataset(case["D"]), 6 if entry in (4, 5) else entry, name="session")
        out = "ok"
    except Exception as ex:
        ds, out = None, type(ex).__name__
    first = step("construct", case["D"], out, ds, {})
    if case.get("log_construct", 1):
        steps.append(first)

    def scribble():
        # the caller modifies ITS objects: the list it gave to the constructor, the matrices, the universe and the
        # unified rankings it received (all of them fresh copies); the dataset must not change
        pre = _rk_of(ds, nm)
        try:
            if given is not None:
                given.append(_impl["Ranking"]([{nm.names[ne]}]))
                if len(given) > 1:
                    given[0] = given[-1]
            m = ds.get_positions()
            m += 3
            b = ds.get_bucket_ids()
            b[:] = -5
            ds.universe.clear()
            ds.unified_rankings().clear()
            for r in ds.rankings:
                r.domain.clear()
        except Exception:
            pass
        steps.append(step("scribble", pre, "ok", ds, {}))
    if ds is not None and case.get("scribble", (case.get("id", 0) % 3 == 0)):
        scribble()
    if ds is not None:
        for op in case["ops"]:
            pre = _rk_of(ds, nm)
            for r in list(ds.rankings)[:3] + ([ds[0]] if ds.nb_rankings else []):
                if not any(r is h for h in held) and len(held) < 8:
                    held.append(r)
            try:
                if op["op"] == "remove_elements":
                    ds.remove_elements({_elem_of(ds, nm, x).value if op.get("raw") else _elem_of(ds, nm, x)
                                        for x in op["S"]})
                elif op["op"] == "remove_rate":
                    ds.remove_elements_rate_presence_lower_than(op["p"] / op["q"])
                else:
                    ds.remove_empty_rankings()
                out = "ok"
            except Exception as ex:
                out = type(ex).__name__
            steps.append(step(op["op"], pre, out, ds, {k: v for k, v in op.items() if k in ("S", "p", "q")}))
        if case["ops"] and case.get("scribble", (case.get("id", 0) % 3 == 1)):
            scribble()
    return {"id": case["id"], "steps": steps}


def _elem_of(ds, nm, x):
    """the element as the user would designate it: the Element object of the current universe when present,
    else a fresh Element with the dataset's current type"""
    for e in ds.universe:
        if nm.elem(e) == x:
            return e
    E = _impl["Element"]
    name = nm.names[x]
    is_int = all(e.type == int for e in ds.universe)
    return E(int(name)) if is_int and str(name).isdigit() else E(str(name))


def flatten(records):
    out = []
    for r in records:
        for k, s in enumerate(r["steps"]):
            s = dict(s)
            s["id"] = r["id"] * 64 + k
            s["session"] = r["id"]
            out.append(s)
    return out


def as_behaviours(records):
    """one record per SESSION for Trace_DatasetSeq: the logged events in order (operation, arguments, outcome, rankings
    observed after it); nothing else of the observation is needed there"""
    out = []
    for r in records:
        evs = []
        for s in r["steps"]:
            if s.get("alive") != 1 and s["op"] != "construct":
                break
            evs.append({"op": s["op"], "pre": s["pre"], "out": s["out"], "post": [x["rk"] for x in s["obs"]["rks"]],
                        "S": s.get("S", []), "p": s.get("p", 0), "q": s.get("q", 1)})
            if s.get("alive") != 1:
                break
        if evs and evs[0]["op"] == "construct":
            out.append({"id": r["id"], "events": evs})
    return out


# ------------------------------------------------------------------------------- rankings from other sources
def run_ranking(case):
    """case: {"src": "ctor"|"from_string"|"generated"|"consensus", ...}"""
    import random
    Ranking = _impl["Ranking"]
    ne = case["ne"]
    nm = NameMap(case["naming"], ne)
    rec = dict(case)
    rec.update(kind="ranking", out="", obs={"rk": [], "pos": [0] * ne, "dom": [], "nbe": 0, "len": 0})
    try:
        if case["src"] == "ctor":
            r = Ranking(nm.raw_ranking(case["r"]))
        elif case["src"] == "from_string":
            r = Ranking.from_string(str(Ranking(nm.raw_ranking(case["r"]))))
        elif case["src"] == "generated":
            random.seed(case["seed"])
            rs = Ranking.generate_rankings(ne, 1, case["steps"], bool(case["complete"]))
            if not rs:
                rec["out"] = "nothing-generated"
                return rec
            r = rs[0]
        elif case["src"] == "ctor_alias":
            # the caller keeps the sets it gave to the constructor and modifies them afterwards: the views of the
            # ranking must still agree with ITS buckets (whether or not it copied them)
            E = _impl["Element"]
            raw = [{E(nm.names[x]) for x in b} for b in case["r"]]
            r = Ranking(raw)
            r2 = Ranking(r.buckets)            # a second ranking built from the buckets of the first
            for k, b in enumerate(raw):        # the caller then modifies ITS OWN sets
                if k % 2 == 0:
                    b.add(E(nm.names[ne]))
                elif len(b) > 1:
                    b.pop()
            r = r if case.get("which", 0) == 0 else r2
        elif case["src"] == "consensus_handbuilt":
            from corankco.consensus import Consensus
            r = Ranking(nm.raw_ranking(case["r"]))
            other = Ranking(nm.raw_ranking(case["r2"]))
            c = Consensus([r, other])
            _ = (c.nb_elements, c.elements, str(c), c.description())
            r = c.consensus_rankings[case.get("which", 0) % 2]
        elif case["src"] == "consensus":
            from . import algorun
            from corankco.scoringscheme import ScoringScheme
            if "RAA" not in algorun._impl:
                algorun.init()
            B, T, unit = case["sch"]
            ds = _impl["Dataset"].from_raw_list(nm.raw_dataset(case["D"]))
            alg = algorun.build(case["cfg"], [], [], 0)
            random.seed(case.get("seed", 0))
            cons = alg.compute_consensus_rankings(ds, ScoringScheme(core.scheme_float(B, T, unit)), False)
            r = cons.consensus_rankings[case.get("k", 0) % len(cons.consensus_rankings)]
        else:
            raise ValueError(case["src"])
        rec["obs"] = observe_ranking(r, nm)
        rec["out"] = "ok"
    except Exception as ex:
        rec["out"] = "error:" + type(ex).__name__
    return rec


# ------------------------------------------------------------------------------- files (C18)
def run_file(case):
    Dataset = _impl["Dataset"]
    ne = case["ne"]
    nm = NameMap(case["naming"], ne)
    rec = dict(case)
    rec.update(kind="file", out="", read=[], typesok=0)
    d = core.workdir("files")
    path = os.path.join(d, f"ds_{os.getpid()}.txt")          # the SAME path for every case of this worker process
    cwd = os.getcwd()
    if case.get("relative"):
        os.chdir(d)                                   # a bare file name, relative to the current directory
        path = f"rel_{os.getpid()}.txt"
    try:
        if os.path.exists(path):
            os.unlink(path)
        ds = Dataset.from_raw_list(nm.raw_dataset(case["D"]))
        ds.write(path)
        if not os.path.isfile(path):
            rec["out"] = "error:NotWritten"
            return rec
        rd = Dataset.from_file(path) if case.get("reader", 0) == 0 else Dataset.get_dataset_from_file(path)
        rec["read"] = _rk_of(rd, nm)
        t1 = {e.type for r in ds.rankings for b in r.buckets for e in b}
        t2 = {e.type for r in rd.rankings for b in r.buckets for e in b}
        rec["typesok"] = 1 if t1 == t2 else 0
        rec["out"] = "ok"
    except Exception as ex:
        rec["out"] = "error:" + type(ex).__name__
    finally:
        if os.path.exists(path):
            os.unlink(path)
        os.chdir(cwd)
    return rec


# ------------------------------------------------------------------------------- equality (C17)
def _build_ordered(D, orders, nm, name):
    """dataset whose buckets are python sets filled in the given insertion order"""
    raw = []
    for r, ords in zip(D, orders):
        rr = []
        for b, o in zip(r, ords):
            s = set()
            for x in o:
                s.add(nm.names[x])
            assert len(s) == len(b)
            rr.append(s)
        raw.append(rr)
    return _impl["Dataset"].from_raw_list(raw, name=name)


def run_eq(case):
    nm = NameMap(case["naming"], case["ne"])
    rec = dict(case)
    rec.update(kind="eq", out="", ab=0, ba=0, aa=0, bb=0, rankeq=0)
    rec["neq"] = 0
    try:
        A = _build_ordered(case["a"], case["oa"], nm, "first")
        B = _build_ordered(case["b"], case["ob"], nm, "second")
        A2 = _build_ordered(case["a"], [[list(reversed(o)) for o in r] for r in case["oa"]], nm, "third")
        if case.get("ops"):
            # history: compare once, modify both datasets in place, then the measured comparisons
            _ = (A == B), (B == A), (A == A2)
            for X in (A, A2):
                for op in case["ops"]:
                    if op["op"] == "remove_elements":
                        X.remove_elements({_elem_of(X, nm, x) for x in op["S"]})
                    elif op["op"] == "remove_rate":
                        X.remove_elements_rate_presence_lower_than(op["p"] / op["q"])
                    else:
                        X.remove_empty_rankings()
            rec["a"] = _rk_of(A, nm)
            rec["b"] = _rk_of(B, nm)
            if _rk_of(A2, nm) != rec["a"]:
                raise ValueError("twin diverged")
        ab, ba = (A == B), (B == A)
        aa, bb = (A == A) and (A == A2), (B == B)
        ne = (A != B)
        for v in (ab, ba, aa, bb, ne):
            if v not in (True, False):
                raise TypeError("not bool")
        # multiset matching with the library's own Ranking equality
        rest = list(B.rankings)
        ok = len(A.rankings) == len(rest)
        if ok:
            for r in A.rankings:
                for k, q in enumerate(rest):
                    if r == q:
                        rest.pop(k)
                        break
                else:
                    ok = False
                    break
        rec.update(ab=int(ab), ba=int(ba), aa=int(aa), bb=int(bb), rankeq=int(ok), out="ok")
        rec["neq"] = int(ne)
    except Exception as ex:
        rec["out"] = "setup-failed" if case.get("ops") else "error:" + type(ex).__name__
    return rec
