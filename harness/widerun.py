"""Runs on WIDE inputs (a thousand elements and more): the records carry key vectors (bucket index per element, 0 =
unranked) instead of bucket lists; spec/Trace_Wide.tla computes the scores from the definition by folds."""
from . import core

_impl = {}


def init(aux=None):
    core.import_impl()
    from corankco.dataset import Dataset
    from corankco.ranking import Ranking
    from corankco.kemeny_score_computation import KemenyComputingFactory
    from corankco.algorithms.bioconsert.bioconsert import BioConsert
    from corankco.algorithms.pickaperm.pickaperm import PickAPerm
    from corankco.algorithms.borda.borda import BordaCount
    from corankco.algorithms.copeland.copeland import CopelandMethod
    _impl.update(Dataset=Dataset, Ranking=Ranking, KCF=KemenyComputingFactory,
                 algs={"BioConsert": BioConsert, "PickAPerm": PickAPerm, "Borda": BordaCount, "Copeland": CopelandMethod})


def _key(ranking, n, off):
    """bucket index (1-based) per abstract element 1..n; 0 when the ranking does not hold it"""
    key = [0] * n
    for b, bucket in enumerate(ranking, 1):
        for e in bucket:
            v = e.value if hasattr(e, "value") else e
            x = int(v) - off
            if not 1 <= x <= n or key[x - 1]:
                raise ValueError("foreign or repeated element")
            key[x - 1] = b
    return key


def _build(D, off, how):
    Dataset, Ranking = _impl["Dataset"], _impl["Ranking"]
    raw = [[{x + off for x in b} for b in r] for r in D]
    if how % 2 == 0:
        return Dataset.from_raw_list(raw)
    return Dataset([Ranking(r) for r in raw])


def run_wide(case):
    rec = {k: v for k, v in case.items() if k not in ("D", "c")}
    n, off = case["n"], case.get("off", 0)
    rec.update(kind="wide", out="", K=[], rep=[0, 0], D=[])
    B, T, unit = case["sch"]
    rec["B"], rec["T"] = list(B), list(T)
    try:
        ds = _build(case["D"], off, case.get("how", 0))
        ss = core.build_scheme(B, T, unit, case.get("form", 0))
        rec["D"] = [_key(r, n, off) for r in ds.rankings]
    except Exception as ex:
        rec["out"] = "setup-failed"
        rec["err"] = repr(ex)[:200]
        return rec
    try:
        if case["cfg"] == "score":
            cand = _impl["Ranking"]([{x + off for x in b} for b in case["c"]])
            val = _impl["KCF"](ss).get_kemeny_score(cand, ds)
            rec["K"] = [_key(cand, n, off)]
            r, ok = core.to_units(val, unit)
            rec["rep"] = [r, 1 if ok else 0]
            rec["out"] = "score"
            return rec
        alg = _impl["algs"][case["cfg"]]()
        cons = alg.compute_consensus_rankings(ds, ss, bool(case.get("flag", 1)))
        rec["K"] = [_key(r, n, off) for r in cons.consensus_rankings]
        r, ok = core.to_units(cons.kemeny_score, unit)
        rec["rep"] = [r, 1 if ok else 0]
        rec["out"] = "consensus"
    except Exception as ex:
        rec["out"] = "error:" + type(ex).__name__
    return rec


def run_wide_eq(case):
    rec = {k: v for k, v in case.items() if k not in ("a", "b")}
    n, off = case["n"], case.get("off", 0)
    rec.update(kind="eq", out="", ab=0, ba=0, aa=0, bb=0, neq=0, a=[], b=[])
    try:
        A = _build(case["a"], off, case.get("how", 0))
        A2 = _build(case["a"], off, case.get("how", 0) + 1)
        Bd = _build(case["b"], off, case.get("how", 0) // 2)
        rec["a"] = [_key(r, n, off) for r in A.rankings]
        rec["b"] = [_key(r, n, off) for r in Bd.rankings]
    except Exception as ex:
        rec["out"] = "setup-failed"
        rec["err"] = repr(ex)[:200]
        return rec
    try:
        ab, ba, aa, bb, ne = (A == Bd), (Bd == A), (A == A) and (A == A2), (Bd == Bd), (A != Bd)
        for v in (ab, ba, aa, bb, ne):
            if v not in (True, False):
                raise TypeError("not bool")
        rec.update(ab=int(ab), ba=int(ba), aa=int(aa), bb=int(bb), neq=int(ne), out="ok")
    except Exception as ex:
        rec["out"] = "error:" + type(ex).__name__
    return rec
