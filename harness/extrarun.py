"""Runs of the behaviour specified in spec/Extras.tla (outside the listed properties): top-k of a consensus, plain views
of Consensus and OrderedPartition objects, order and equality of Element objects.  Differences are drift, not verdicts."""
import os

from . import core

_impl = {}


def init(aux=None):
    core.import_impl()
    from corankco.consensus import Consensus
    from corankco.dataset import Dataset
    from corankco.element import Element
    from corankco.partitioning.ordered_partition import OrderedPartition
    from corankco.ranking import Ranking
    from corankco.scoringscheme import ScoringScheme
    from corankco.algorithms.borda.borda import BordaCount
    _impl.update(Consensus=Consensus, Dataset=Dataset, Element=Element, OP=OrderedPartition, Ranking=Ranking,
                 Scheme=ScoringScheme, Borda=BordaCount)


def _names(kind, n):
    nm = core.naming(kind, max(n, 1))
    inv = {str(v): k for k, v in nm.items()}
    return nm, inv


def _abs_ranking(r, inv):
    return [sorted(inv[str(e.value)] for e in b) for b in r]


def _raw(r, nm):
    return [{nm[x] for x in b} for b in r]


def _consensus(case, nm):
    """a Consensus object whose rankings are case['R'], built through one of the public routes"""
    C, R, D = _impl["Consensus"], _impl["Ranking"], _impl["Dataset"]
    how = case["how"]
    raws = [_raw(r, nm) for r in case["R"]]
    if how == "from_raw_lists":
        return C.from_raw_lists(raws), None
    if how == "ctor":
        return C([R(r) for r in raws]), None
    if how == "ctor_elements":
        E = _impl["Element"]
        return C([R([{E(x) for x in b} for b in r]) for r in raws]), None
    if how == "file":
        # Dataset.write silently refuses to overwrite: the path must not exist
        path = os.path.join(core.workdir("tmpfiles"), f"cons_{os.getpid()}.txt")
        if os.path.exists(path):
            os.unlink(path)
        try:
            D.from_raw_list(raws).write(path)
            return C.get_consensus_from_file(path), None
        finally:
            if os.path.exists(path):
                os.unlink(path)
    if how == "with_dataset":
        ds = D.from_raw_list([_raw(r, nm) for r in case["D"]])
        return C([R(r) for r in raws], ds, _impl["Scheme"]([[0., 1., 1., 0., 1., 0.], [1., 1., 0., 1., 1., 0.]])), ds
    if how == "algorithm":
        ds = D.from_raw_list(raws)
        return _impl["Borda"]().compute_consensus_rankings(ds, _impl["Scheme"].get_unifying_scoring_scheme(), True), ds
    raise ValueError(how)


def run_topk(case):
    rec = dict(case)
    rec.update(kind="topk", out="", r=[], got=[], ev=0)
    try:
        nm, inv = _names(case["naming"], case["ne"])
        cons, _ = _consensus(case, nm)
        rec["r"] = _abs_ranking(cons.consensus_rankings[0], inv)
        # the gold standard is given with the values as the consensus types them (digit strings become ints in a dataset)
        typed = {str(e.value): e.value for r in cons.consensus_rankings for b in r for e in b}
        gold = [typed.get(str(nm[x]), nm[x]) for x in case["gold"]]
        if case["goldform"] == 1:
            gold = [_impl["Element"](g) for g in gold]
        elif case["goldform"] == 2:
            gold = iter(tuple(gold))
    except Exception as ex:
        rec["out"] = "setup-failed"
        rec["err"] = repr(ex)[:200]
        return rec
    try:
        got = cons.topk_ranking(case["k"])
        rec["got"] = sorted(inv[str(e.value)] for e in got)
        rec["ev"] = int(cons.evaluate_topk_ranking(gold, case["k"]))
        rec["out"] = "ok"
    except Exception as ex:
        rec["out"] = type(ex).__name__
    return rec


def run_cviews(case):
    rec = dict(case)
    rec.update(kind="cviews", out="", withds=0, U=[], nbc=0, len=0, elems=[], nbe=0, iter=[], items=[], opt=0, unset=0)
    try:
        nm, inv = _names(case["naming"], case["ne"])
        cons, ds = _consensus(case, nm)
        rec["R"] = [_abs_ranking(r, inv) for r in cons.consensus_rankings]
        if ds is not None:
            rec["withds"] = 1
            rec["U"] = sorted(inv[str(e.value)] for e in ds.universe)
    except Exception as ex:
        rec["out"] = "setup-failed"
        rec["err"] = repr(ex)[:200]
        return rec
    try:
        rec["nbc"], rec["len"] = int(cons.nb_consensus), len(cons)
        rec["elems"] = sorted(inv[str(e.value)] for e in cons.elements)
        rec["nbe"] = int(cons.nb_elements)
        rec["iter"] = [_abs_ranking(r, inv) for r in cons]
        rec["items"] = [_abs_ranking(cons[k], inv) for k in range(len(cons))]
        if ds is None:
            rec["opt"] = 1 if cons.necessarily_optimal else 0
            rec["unset"] = 1 if cons.kemeny_score == -1 else 0
        rec["out"] = "ok"
    except Exception as ex:
        rec["out"] = type(ex).__name__
    return rec


def run_pviews(case):
    rec = dict(case)
    n = case["ne"]
    rec.update(kind="pviews", out="", which=[0] * n, same=[["?"] * n for _ in range(n)], groups=[], iter=[], elems=[], nbe=0)
    try:
        nm, inv = _names(case["naming"], n)
        E = _impl["Element"]
        part = _impl["OP"]([{E(nm[x]) for x in g} for g in case["P"]])
    except Exception as ex:
        rec["out"] = "setup-failed"
        rec["err"] = repr(ex)[:200]
        return rec
    try:
        rec["which"] = [int(part.which_index_is(E(nm[x]))) for x in range(1, n + 1)]
        for x in range(1, n + 1):
            for y in range(1, n + 1):
                try:
                    v = part.in_same_group(E(nm[x]), E(nm[y]))
                    rec["same"][x - 1][y - 1] = "T" if v is True else "F" if v is False else "notbool"
                except Exception as ex:
                    rec["same"][x - 1][y - 1] = type(ex).__name__
        rec["groups"] = [sorted(inv[str(e.value)] for e in part.get_group_index(k)) for k in range(len(case["P"]))]
        rec["iter"] = [sorted(inv[str(e.value)] for e in g) for g in part]
        rec["elems"] = sorted(inv[str(e.value)] for e in part.elements)
        rec["nbe"] = int(part.nb_elements)
        rec["out"] = "ok"
    except Exception as ex:
        rec["out"] = type(ex).__name__
    return rec


def _enc(v):
    return {"t": "int", "v": v} if isinstance(v, int) else {"t": "str", "v": [ord(c) for c in v]}


def run_elem(case):
    E = _impl["Element"]
    va, vb = case["va"], case["vb"]
    rec = {"id": case.get("id"), "kind": "elem", "va": va, "vb": vb, "a": _enc(va), "b": _enc(vb), "out": ""}
    rec.update(lt="", le="", gt="", ge="", eq="", ne="", eqraw="", hasheq=0, canint="", copyeq="")

    def tf(fn):
        try:
            v = fn()
            return "T" if v is True else "F" if v is False else "notbool"
        except AssertionError:
            return "AssertionError"
        except Exception as ex:
            return type(ex).__name__
    try:
        a, b = E(va), E(vb)
        rec["lt"], rec["le"] = tf(lambda: a < b), tf(lambda: a <= b)
        rec["gt"], rec["ge"] = tf(lambda: a > b), tf(lambda: a >= b)
        rec["eq"], rec["ne"] = tf(lambda: a == b), tf(lambda: a != b)
        rec["eqraw"] = tf(lambda: a == vb)
        rec["hasheq"] = 1 if hash(a) == hash(b) else 0
        rec["canint"] = tf(a.can_be_int)
        rec["copyeq"] = tf(lambda: E(a) == a and E(a).type is a.type and hash(E(a)) == hash(a))
        rec["out"] = "ok"
    except Exception as ex:
        rec["out"] = type(ex).__name__
    return rec


# ------------------------------------------------------------------ files, folders, selector, dataset views
def _line_text(line, nm):
    if line["k"] != "ranking":
        return line["text"]
    op, cl = ("{", "}") if line.get("brace", 1) else ("[", "]")
    sep = line.get("sep", ", ")
    body = sep.join(op + sep.join(str(nm[x]) for x in b) + cl for b in line["r"])
    txt = line.get("prefix", "") + "[" + body + "]"
    if line["r"] == []:
        txt = line.get("prefix", "") + "[[]]"
    cont = line.get("cont")
    if cont is not None and 0 < cont < len(txt):
        txt = txt[:cont] + "\\\n" + txt[cont:]
    return txt


def _write_lines(path, lines, nm, final_newline=True):
    with open(path, "w", encoding="utf-8") as f:
        f.write("\n".join(_line_text(l, nm) for l in lines) + ("\n" if final_newline else ""))


def _abs_ds(ds, inv):
    return [_abs_ranking(r, inv) for r in ds.rankings]


def run_fileg(case):
    rec = dict(case)
    rec.update(kind="fileg", out="", read=[], name=0)
    D = _impl["Dataset"]
    path = os.path.join(core.workdir("tmpfiles"), f"fg_{os.getpid()}.txt")
    try:
        nm, inv = _names(case["naming"], case["ne"])
        _write_lines(path, case["lines"], nm, case.get("final_newline", 1) == 1)
    except Exception as ex:
        rec["out"] = "setup-failed"
        rec["err"] = repr(ex)[:200]
        return rec
    try:
        how = case["reader"]
        if how == "from_file":
            ds = D.from_file(path)
        elif how == "get_dataset_from_file":
            ds = D.get_dataset_from_file(path)
        else:
            cons = _impl["Consensus"].get_consensus_from_file(path)
            ds = D(list(cons.consensus_rankings), name=os.path.basename(path))
        rec["read"] = _abs_ds(ds, inv)
        rec["name"] = 1 if ds.name == os.path.basename(path) else 0
        rec["out"] = "ok"
    except Exception as ex:
        rec["out"] = type(ex).__name__
    finally:
        if os.path.exists(path):
            os.unlink(path)
    return rec


def run_folder(case):
    import shutil
    rec = dict(case)
    rec.update(kind="folder", out="", read=[])
    D = _impl["Dataset"]
    folder = os.path.join(core.workdir("tmpfiles"), f"folder_{os.getpid()}")
    try:
        nm, inv = _names(case["naming"], case["ne"])
        shutil.rmtree(folder, ignore_errors=True)
        os.makedirs(folder)
        for f in case["files"]:          # created in the order of the case, read in the order of the names
            _write_lines(os.path.join(folder, f"d{f['key']:03d}.txt"), f["lines"], nm)
    except Exception as ex:
        rec["out"] = "setup-failed"
        rec["err"] = repr(ex)[:200]
        return rec
    try:
        dss = D.get_datasets_from_folder(folder if case.get("slash", 0) == 0 else folder + os.path.sep)
        for ds in dss:
            nme = str(ds.name)
            key = int(nme[1:4]) if len(nme) == 8 and nme[0] == "d" and nme.endswith(".txt") and nme[1:4].isdigit() else -1
            rec["read"].append({"key": key, "rks": _abs_ds(ds, inv)})
        rec["out"] = "ok"
    except Exception as ex:
        rec["out"] = type(ex).__name__
    finally:
        shutil.rmtree(folder, ignore_errors=True)
    return rec


def run_select(case):
    from corankco.dataset import DatasetSelector
    rec = dict(case)
    rec.update(kind="select", out="", got=[], views=0)
    D = _impl["Dataset"]
    try:
        nm, inv = _names(case["naming"], case["ne"])
        dss = [D.from_raw_list([_raw(r, nm) for r in d]) for d in case["Ds"]]
    except Exception as ex:
        rec["out"] = "setup-failed"
        rec["err"] = repr(ex)[:200]
        return rec
    try:
        b = case["b"]
        inf = lambda v: float("inf") if v >= 1000000 else v          # noqa: E731
        kw = {}
        # a bound left at its default value is not passed at all
        if b["emin"] != 0 or case["explicit"]:
            kw["nb_elem_min"] = b["emin"]
        if b["emax"] < 1000000 or case["explicit"]:
            kw["nb_elem_max"] = inf(b["emax"])
        if b["rmin"] != 0 or case["explicit"]:
            kw["nb_rankings_min"] = b["rmin"]
        if b["rmax"] < 1000000 or case["explicit"]:
            kw["nb_rankings_max"] = inf(b["rmax"])
        sel = DatasetSelector(**kw)
        res = sel.select_datasets(dss)
        got = []
        for d in res:
            ks = [k for k, x in enumerate(dss) if x is d]
            got.append(ks[0] + 1 if ks else 0)
        rec["got"] = got
        rec["views"] = 1 if (sel.nb_elem_min == b["emin"] and sel.nb_elem_max == inf(b["emax"]) and
                             sel.nb_rankings_min == b["rmin"] and sel.nb_rankings_max == inf(b["rmax"])) else 0
        rec["out"] = "ok"
    except Exception as ex:
        rec["out"] = type(ex).__name__
    return rec


def run_dviews(case):
    rec = dict(case)
    n = case["ne"]
    rec.update(kind="dviews", out="", contains=["?"] * n, containsE=["?"] * n, iter=[], items=[], name=0)
    D, E = _impl["Dataset"], _impl["Element"]
    try:
        nm, inv = _names(case["naming"], n)
        ds = core.build_dataset([[sorted(nm[x] for x in b) for b in r] for r in case["D"]], case.get("how", 0), name="views")
        typed = {str(e.value): e.value for e in ds.universe}
    except Exception as ex:
        rec["out"] = "setup-failed"
        rec["err"] = repr(ex)[:200]
        return rec
    try:
        for x in range(1, n + 1):
            v = typed.get(str(nm[x]), nm[x])
            a, b = ds.contains_element(v), ds.contains_element(E(v))
            rec["contains"][x - 1] = "T" if a is True else "F" if a is False else "notbool"
            rec["containsE"][x - 1] = "T" if b is True else "F" if b is False else "notbool"
        rec["iter"] = [_abs_ranking(r, inv) for r in ds]
        rec["items"] = [_abs_ranking(ds[k], inv) for k in range(ds.nb_rankings)]
        ds.name = "renamed"
        rec["name"] = 1 if ds.name == "renamed" else 0
        rec["out"] = "ok"
    except Exception as ex:
        rec["out"] = type(ex).__name__
    return rec


def run_factory(case):
    from corankco.algorithms.algorithm_choice import Algorithm, get_algorithm
    rec = dict(case)
    rec.update(kind="factory", out="", all=[], compat=[], cls="", fresh=0, relevant=[], params=0)
    try:
        rec["all"] = [a.name for a in Algorithm.get_all()]
        rec["compat"] = [a.name for a in Algorithm.get_all_compatible_with_any_scoring_scheme()]
        kind = Algorithm[case["name"]]
        a1 = get_algorithm(kind) if case["none"] else get_algorithm(kind, {})
        a2 = get_algorithm(kind)
        rec["cls"] = type(a1).__name__
        rec["fresh"] = 1 if a1 is not a2 else 0
        for B, T, unit in case["schemes"]:
            ss = core.build_scheme(B, T, unit)
            rec["relevant"].append(1 if a1.is_scoring_scheme_relevant_when_incomplete_rankings(ss) is True else 0)
        # parameters reach the constructor
        ok = 1
        if case["name"] == "PARCONS":
            p = get_algorithm(kind, {"bound_for_exact": 7})
            ok = 1 if getattr(p, "_bound_for_exact", None) == 7 else 0
        elif case["name"] == "EXACT":
            p = get_algorithm(kind, {"optimize": False})
            ok = 1 if type(p).__name__ == "ExactAlgorithm" else 0
        elif case["name"] == "BORDACOUNT":
            p = get_algorithm(kind, {"use_bucket_id": True})
            ok = 1 if type(p).__name__ == "BordaCount" else 0
        rec["params"] = ok
        rec["out"] = "ok"
    except Exception as ex:
        rec["out"] = type(ex).__name__
    return rec


class _ScriptExhausted(Exception):
    pass


def run_bench(case):
    """bench_time_consensus with the clock of its module replaced by a scripted one (durations in eighths of a second)"""
    import corankco.algorithms.rank_aggregation_algorithm as ram
    from corankco.algorithms.copeland.copeland import CopelandMethod
    from corankco.algorithms.borda.borda import BordaCount
    rec = dict(case)
    rec.update(kind="bench", out="", calls=0, total8=0, exact=0, argsok=0)
    base = [BordaCount, CopelandMethod][case["alg"] % 2]
    seen = []

    class Counting(base):
        def compute_consensus_rankings(self, dataset, scoring_scheme, return_at_most_one_ranking=True, bench_mode=False):
            seen.append((dataset, scoring_scheme, return_at_most_one_ranking, bench_mode))
            return base.compute_consensus_rankings(self, dataset, scoring_scheme, return_at_most_one_ranking, bench_mode)
    Counting.__name__ = base.__name__
    state = {"c": 0, "now": 1000.0}
    d = case["d"]

    def clock():
        c = state["c"]
        state["c"] += 1
        if c % 2 == 1:
            k = c // 2
            if k >= len(d):
                raise _ScriptExhausted()
            state["now"] += d[k] / 8.0
        elif c // 2 >= len(d):
            raise _ScriptExhausted()
        return state["now"]
    try:
        ds = _impl["Dataset"].from_raw_list([[{1}, {2, 3}], [{3}, {1}, {2}]])
        ss = _impl["Scheme"].get_unifying_scoring_scheme()
        alg = Counting()
    except Exception as ex:
        rec["out"] = "setup-failed"
        rec["err"] = repr(ex)[:200]
        return rec
    orig = ram.time
    ram.time = clock
    try:
        flag = bool(case["flag"])
        if case["default_lb"]:
            avg = alg.bench_time_consensus(ds, ss, flag)
        else:
            avg = alg.bench_time_consensus(ds, ss, flag, case["lb"] / 8.0)
        n = len(seen)
        rec["calls"] = n
        tot = avg * n * 8
        rec["total8"] = int(round(tot))
        rec["exact"] = 1 if abs(tot - round(tot)) < 1e-6 else 0
        rec["argsok"] = 1 if all(a is ds and b is ss and c is flag and m is True for a, b, c, m in seen) else 0
        rec["out"] = "ok"
    except _ScriptExhausted:
        rec["out"] = "exhausted"
    except Exception as ex:
        rec["out"] = type(ex).__name__
    finally:
        ram.time = orig
    return rec
