"""BioConsert's local search observed move by move on the un-jitted twin of the numba kernels
(NUMBA_DISABLE_JIT=1 in the worker processes; module-level wrappers of _change_bucket / _add_bucket /
_improve_one_ranking are then honoured)."""
import os

from . import core

_impl = {}


def init(aux=None):
    os.environ["NUMBA_DISABLE_JIT"] = "1"
    core.import_impl()
    import corankco.algorithms.bioconsert.bioconsert as bc
    from corankco.dataset import Dataset
    from corankco.scoringscheme import ScoringScheme
    _impl.update(bc=bc, Dataset=Dataset, SS=ScoringScheme)


def run_search(case):
    """case: {"D", "sch", "naming", "cfg": "BioConsert"|"BioCo"} -> {"id", "searches": [records]}"""
    import numpy as np
    bc = _impl["bc"]
    am = core.Absmap(case["naming"], case["D"])
    B, T, unit = case["sch"]
    searches = []
    cur = {}
    orig = {k: getattr(bc, k) for k in ("_change_bucket", "_add_bucket", "_improve_one_ranking")}

    def change(r, n, element, old_pos, new_pos, alone):
        orig["_change_bucket"](r, n, element, old_pos, new_pos, alone)
        cur["moves"].append(["change", int(element), int(old_pos), int(new_pos), int(alone), [int(x) for x in r]])

    def add(r, n, element, old_pos, new_pos, alone):
        orig["_add_bucket"](r, n, element, old_pos, new_pos, alone)
        cur["moves"].append(["add", int(element), int(old_pos), int(new_pos), int(alone), [int(x) for x in r]])

    def improve(r, cost_matrix_1d, n):
        cur.clear()
        cur.update(start=[int(x) for x in r], moves=[])
        d = orig["_improve_one_ranking"](r, cost_matrix_1d, n)
        tab = np.asarray(cost_matrix_1d).reshape(n, n, 3)
        exact = True
        t = []
        for i in range(n):
            row = []
            for j in range(n):
                cell = []
                for k in range(3):
                    u, ex = core.to_units(tab[i][j][k], unit)
                    exact = exact and ex
                    cell.append(u)
                row.append(cell)
            t.append(row)
        du, ex = core.to_units(d, unit)
        searches.append({"D": case["D"], "sch": case["sch"], "cfg": case["cfg"], "unit": unit, "start": cur["start"],
                         "moves": cur["moves"], "delta": du, "exact": 1 if (exact and ex) else 0, "tab": t,
                         "out": "ok"})
        return d
    try:
        bc._change_bucket, bc._add_bucket, bc._improve_one_ranking = change, add, improve
        ds = _impl["Dataset"].from_raw_list(am.raw_dataset(case["D"]), name="study")     # every dataset of a process bears the same name (two files with one base name)
        ss = _impl["SS"](core.scheme_float(B, T, unit))
        if case["cfg"] == "BioCo":
            from corankco.algorithms.bioconsert.bioco import BioCo
            alg = BioCo()
        else:
            alg = bc.BioConsert()
        core.with_alarm(60, alg.compute_consensus_rankings, ds, ss, False)
    except Exception as ex:
        searches.append({"D": case["D"], "sch": case["sch"], "cfg": case["cfg"], "unit": unit, "start": [], "moves": [],
                         "delta": 0, "exact": 0, "tab": [], "out": "error:" + type(ex).__name__})
    finally:
        for k, f in orig.items():
            setattr(bc, k, f)
    return {"id": case["id"], "searches": searches}


def flatten(records):
    out = []
    for r in records:
        for k, s in enumerate(r["searches"]):
            s = dict(s)
            s["id"] = r["id"] * 64 + k
            out.append(s)
    return out
