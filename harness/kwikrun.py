"""KwikSort under a controlled pivot chooser: every pivot schedule of a (dataset, scheme) is executed (depth-first
re-execution with an odometer over the choice points) and each run is logged step by step."""
from . import core

_impl = {}


def init(aux=None):
    core.import_impl()
    from corankco.dataset import Dataset
    from corankco.scoringscheme import ScoringScheme
    from corankco.algorithms.kwiksort.kwiksortrandom import KwikSortRandom
    _impl.update(Dataset=Dataset, SS=ScoringScheme, KSR=KwikSortRandom)


def _controlled(am):
    """one algorithm OBJECT whose pivot schedule / logs are replaced before each run"""
    KSR = _impl["KSR"]

    class Controlled(KSR):
        def __init__(self):
            self.schedule, self.log, self.sizes = [], [], []

        def _get_pivot(self, mapping_elements_id, elements, positions, scoring_scheme):
            k = len(self.log)
            # deterministic presentation order: sort candidates by abstract number
            cands = sorted(elements, key=lambda e: am.elem(e))
            choice = self.schedule[k] if k < len(self.schedule) else 0
            self.sizes.append(len(cands))
            p = cands[choice % len(cands)]
            self.log.append([sorted(am.elem(e) for e in elements), am.elem(p)])
            return p
    return Controlled()


def run_all_schedules(case):
    """returns {"id", "runs": [records]} : one record per pivot schedule (capped by case["max_runs"])"""
    am = core.Absmap(case["naming"], case["D"])
    B, T, unit = case["sch"]
    runs = []
    try:
        ds = _impl["Dataset"].from_raw_list(am.raw_dataset(case["D"]), name="study")     # every dataset of a process bears the same name (two files with one base name)
        ss = core.build_scheme(B, T, unit, case.get("schemeform", case["id"] % 5))
        if case.get("lex") is not None:
            lib, tlc = core.lex_vectors(case["lex"])
            ss = _impl["SS"](lib)
            case = dict(case)
            case["sch"] = [tlc[0], tlc[1], 1]
    except Exception as ex:
        return {"id": case["id"], "runs": []}
    shared = None
    D = case["D"]
    if case.get("ops"):
        # history: ONE algorithm object for all runs; it first sorts the dataset, the dataset is then modified in
        # place, and every schedule is run on the modified dataset with the same object
        try:
            shared = _controlled(am)
            shared.compute_consensus_rankings(ds, ss, True)
            for op in case["ops"]:
                if op["op"] == "remove_elements":
                    ds.remove_elements({am.value(x) for x in op["S"]})
                elif op["op"] == "remove_rate":
                    ds.remove_elements_rate_presence_lower_than(op["p"] / op["q"])
                else:
                    ds.remove_empty_rankings()
            D = [am.ranking(r) for r in ds.rankings]
        except Exception:
            return {"id": case["id"], "runs": []}
    identical = 1 if all(r == D[0] for r in D) else 0
    schedule = []
    while True:
        rec = {"D": D, "sch": case["sch"], "naming": case["naming"], "schedule": list(schedule),
               "identical": identical, "out": "", "K": [], "steps": []}
        alg = shared if shared is not None else _controlled(am)
        alg.schedule, alg.log, alg.sizes = list(schedule), [], []
        log, sizes = alg.log, alg.sizes
        try:
            cons = core.with_alarm(20, alg.compute_consensus_rankings, ds, ss, True)
            rec["K"] = [am.ranking(r) for r in cons.consensus_rankings]
            rec["out"] = "consensus"
        except core.Timeout:
            rec["out"] = "timeout"
        except Exception as ex:
            rec["out"] = "error:" + type(ex).__name__
        rec["steps"] = log
        runs.append(rec)
        if len(runs) >= case.get("max_runs", 200):
            break
        # odometer: next schedule in depth-first order
        full = [(schedule[k] if k < len(schedule) else 0) for k in range(len(sizes))]
        k = len(full) - 1
        while k >= 0 and full[k] + 1 >= sizes[k]:
            k -= 1
        if k < 0:
            break
        schedule = full[:k] + [full[k] + 1]
    return {"id": case["id"], "runs": runs}


def flatten(records):
    out = []
    for r in records:
        for k, run in enumerate(r["runs"]):
            run = dict(run)
            run["id"] = r["id"] * 256 + k
            out.append(run)
    return out
