"""
A stand-in for the subset of the CPLEX python API that corankco uses, so that the CPLEX code paths can
be driven in a sandbox without CPLEX.  It is *environment*, not oracle: whatever it answers is compared
by TLC with the optimum computed from the definition, so a wrong stand-in can only raise a false alarm on
the CPLEX paths (and the stand-in is cross-checked against CBC in selftest), never hide a defect.

It must be installed AFTER corankco (hence PuLP) has been imported: PuLP's own cplex_api probes
`import cplex` at import time.  install() sets sys.modules['cplex'] and the module global
corankco.algorithms.exact.exactalgorithmcplex.cplex.

Solving: the variables are named x_i_j (i before j) and t_i_j (i tied with j, i<j).  For n <= 7 the
candidate assignments are the encodings of all bucket orders; every recorded row is checked on every
candidate (numpy), the objective is minimised over the candidates that satisfy all rows.  That the rows
admit exactly the bucket-order encodings is NOT assumed to be true of the code: it is checked by TLC on
the captured rows (spec/ILP.tla).  For n > 7, solve() builds the same MILP in PuLP and calls CBC.
"""
import itertools
import sys
import types

import numpy as np

CAPTURE = []          # list of dicts describing every model built (names, objective, rows, senses, rhs)
_CANDS = {}           # cache of the candidate assignments (encodings of all bucket orders) per variable layout
ENUM_MAX = 7          # enumeration up to this number of elements (47 293 bucket orders at 7)


def bucket_orders(elems):
    elems = list(elems)
    if not elems:
        yield []
        return
    n = len(elems)
    for mask in range(1, 1 << n):
        first = [elems[i] for i in range(n) if mask >> i & 1]
        rest = [elems[i] for i in range(n) if not mask >> i & 1]
        for tail in bucket_orders(rest):
            yield [first] + tail


class _Setter:
    def __init__(self, store, name):
        self._s, self._n = store, name

    def set(self, v):
        self._s[self._n] = v

    def __getattr__(self, k):
        return _Setter(self._s, self._n + "." + k)


class _Params:
    def __init__(self):
        self.values = {}

    def __getattr__(self, k):
        if k == "values":
            raise AttributeError
        return _Setter(self.values, k)


class _Sense:
    minimize = 1
    maximize = -1


class _Objective:
    sense = _Sense

    def __init__(self):
        self._sense = 1

    def set_sense(self, s):
        self._sense = s


class _Variables:
    def __init__(self, prob):
        self.p = prob

    def add(self, obj=None, lb=None, ub=None, types=None, names=None):
        self.p.names = list(names)
        self.p.obj = [float(o) for o in obj]
        self.p.lb, self.p.ub, self.p.types = list(lb), list(ub), types
        assert len(self.p.names) == len(self.p.obj) == len(lb) == len(ub) == len(types)


class _Constraints:
    def __init__(self, prob):
        self.p = prob

    def add(self, lin_expr=None, senses=None, rhs=None, names=None):
        assert len(lin_expr) == len(senses) == len(rhs) == len(names), \
            f"rows {len(lin_expr)} senses {len(senses)} rhs {len(rhs)} names {len(names)}"
        self.p.rows += [(list(r[0]), [float(c) for c in r[1]]) for r in lin_expr]
        self.p.senses += list(senses)
        self.p.rhs += [float(x) for x in rhs]


class _Pool:
    def __init__(self, prob):
        self.p = prob

    def get_num(self):
        return len(self.p.pool)

    def get_values(self, i):
        return list(self.p.pool[i])


class _Solution:
    def __init__(self, prob):
        self.p = prob
        self.pool = _Pool(prob)

    def get_values(self):
        return list(self.p.best)

    def get_objective_value(self):
        return self.p.best_val


class CplexError(Exception):
    pass


class Cplex:
    def __init__(self):
        self.parameters = _Params()
        self.objective = _Objective()
        self.variables = _Variables(self)
        self.linear_constraints = _Constraints(self)
        self.solution = _Solution(self)
        self.names, self.obj, self.rows, self.senses, self.rhs = [], [], [], [], []
        self.best, self.best_val, self.pool = None, None, []

    def set_results_stream(self, s):
        pass

    set_log_stream = set_warning_stream = set_error_stream = set_results_stream

    # ------------------------------------------------------------------ solving
    def _n(self):
        n = 0
        for nm in self.names:
            _, i, j = nm.split("_")
            n = max(n, int(i) + 1, int(j) + 1)
        return n

    def _capture(self):
        CAPTURE.append({"names": list(self.names), "obj": list(self.obj), "rows": list(self.rows),
                        "senses": list(self.senses), "rhs": list(self.rhs)})

    def _candidates(self, n):
        key = (n, tuple(self.names))
        if key not in _CANDS:
            _CANDS.clear() if len(_CANDS) > 6 else None
            _CANDS[key] = self._candidates_build(n)
        return _CANDS[key]

    def _candidates_build(self, n):
        idx = {nm: k for k, nm in enumerate(self.names)}
        cands = []
        for bo in bucket_orders(range(n)):
            pos = {}
            for b, bucket in enumerate(bo):
                for e in bucket:
                    pos[e] = b
            v = np.zeros(len(self.names))
            for nm, k in idx.items():
                kind, i, j = nm.split("_")
                i, j = int(i), int(j)
                if kind == "x":
                    v[k] = 1.0 if pos[i] < pos[j] else 0.0
                else:
                    v[k] = 1.0 if pos[i] == pos[j] else 0.0
            cands.append(v)
        return np.array(cands)

    def _feasible_enum(self, n):
        idx = {nm: k for k, nm in enumerate(self.names)}
        X = self._candidates(n)
        A = np.zeros((len(self.rows), len(self.names)))
        for r, (vars_, coefs) in enumerate(self.rows):
            for v, c in zip(vars_, coefs):
                A[r, idx[v]] += c
        L = X @ A.T
        rhs = np.array(self.rhs)
        ok = np.ones(len(X), dtype=bool)
        for r, s in enumerate(self.senses):
            if s == "E":
                ok &= np.abs(L[:, r] - rhs[r]) < 1e-9
            elif s == "L":
                ok &= L[:, r] <= rhs[r] + 1e-9
            elif s == "G":
                ok &= L[:, r] >= rhs[r] - 1e-9
            else:
                raise CplexError("sense " + s)
        Xf = X[ok]
        vals = Xf @ np.array(self.obj)
        return Xf, vals

    def _solve_cbc(self):
        import pulp
        prob = pulp.LpProblem("standin", pulp.LpMinimize)
        vs = {nm: pulp.LpVariable(nm, 0, 1, cat="Binary") for nm in self.names}
        prob += pulp.lpSum(vs[nm] * c for nm, c in zip(self.names, self.obj))
        for (vars_, coefs), s, rhs in zip(self.rows, self.senses, self.rhs):
            e = pulp.lpSum(vs[v] * c for v, c in zip(vars_, coefs))
            prob += (e == rhs) if s == "E" else (e <= rhs) if s == "L" else (e >= rhs)
        prob.solve(pulp.PULP_CBC_CMD(msg=False))
        if pulp.LpStatus[prob.status] != "Optimal":
            raise CplexError("CBC status " + pulp.LpStatus[prob.status])
        self.best = [float(round(vs[nm].value())) for nm in self.names]
        self.best_val = pulp.value(prob.objective) or 0.0

    def solve(self):
        self._capture()
        n = self._n()
        if n <= ENUM_MAX:
            Xf, vals = self._feasible_enum(n)
            if len(Xf) == 0:
                raise CplexError("infeasible")
            k = int(np.argmin(vals))
            self.best, self.best_val = list(Xf[k]), float(vals[k])
        else:
            self._solve_cbc()

    def populate_solution_pool(self):
        self._capture()
        n = self._n()
        if n > ENUM_MAX:
            raise CplexError("stand-in: solution pool only for n <= %d" % ENUM_MAX)
        Xf, vals = self._feasible_enum(n)
        if len(Xf) == 0:
            raise CplexError("infeasible")
        m = vals.min()
        # CPLEX keeps in the pool the solutions within BOTH gaps of the best one (defaults: no filter)
        absgap = self.parameters.values.get("mip.pool.absgap", 1e75)
        relgap = self.parameters.values.get("mip.pool.relgap", 1e75)
        self.pool = [list(x) for x, v in zip(Xf, vals) if v <= m + absgap and v <= m + relgap * max(abs(m), 1e-10)]
        self.best, self.best_val = self.pool[0], float(m)


def make_module():
    m = types.ModuleType("cplex")
    m.Cplex = Cplex
    m.CplexError = CplexError
    m.__version__ = "standin"
    cb = types.ModuleType("cplex.callbacks")

    class Callback:
        pass
    cb.Callback = Callback
    m.callbacks = cb
    ex = types.ModuleType("cplex.exceptions")
    ex.CplexError = CplexError
    ex.CplexSolverError = CplexError
    m.exceptions = ex
    m.__standin__ = True
    return m


def install():
    import corankco.algorithms.exact.exactalgorithmcplex as mod
    m = make_module()
    sys.modules["cplex"] = m
    sys.modules["cplex.callbacks"] = m.callbacks
    sys.modules["cplex.exceptions"] = m.exceptions
    mod.cplex = m
    return m


class _BrokenFinder:
    """a cplex package that is present but cannot be imported (half-installed wrapper): plain ImportError"""

    def find_spec(self, name, path=None, target=None):
        if name == "cplex" or name.startswith("cplex."):
            raise ImportError("cplex is installed but its shared library cannot be loaded (stand-in)")
        return None


_BROKEN = _BrokenFinder()


def install_broken():
    uninstall()
    if _BROKEN not in sys.meta_path:
        sys.meta_path.insert(0, _BROKEN)


def uninstall():
    if _BROKEN in sys.meta_path:
        sys.meta_path.remove(_BROKEN)
    import corankco.algorithms.exact.exactalgorithmcplex as mod
    for k in ("cplex", "cplex.callbacks", "cplex.exceptions"):
        sys.modules.pop(k, None)
    if hasattr(mod, "cplex"):
        try:
            del mod.cplex
        except AttributeError:
            pass
